#!/bin/bash
# usage: ingest.sh <wtnum> <prop>
n=$1; prop=$2
for k in 1 2; do
  src=/tmp/wt_$n.out/$k
  id=M$n-$k
  [ -f $src/patch.diff ] || { echo "$id: no patch"; continue; }
  pkg=$(head -1 $src/README.md | sed 's/^package_dir: *//; s/`//g')
  need=$(sed -n 2p $src/README.md | sed 's/^needs: *//')
  out=$(cd /verif && ./verify_mutant.sh $src "$pkg" TestDemo 2>&1 | tail -3)
  if echo "$out" | grep -q CONFIRMED && ! echo "$out" | grep -q "NOT CONFIRMED"; then
    d=/verif/seeded/$id; mkdir -p $d
    cp $src/patch.diff $src/demo_test.go $src/README.md $d/
    python3 - "$id" "$prop" "$pkg" "$need" > $d/meta.json <<'PY'
import json,sys
id,prop,pkg,need=sys.argv[1:5]
print(json.dumps({"id":id,"breaks_property":prop,"demo_package_dir":pkg,"needs_to_manifest":need,
 "origin":"written by an independent sub-agent that saw only the property text and a scratch worktree of /repo (nothing from /verif)",
 "confirmed_by":"./verify_mutant.sh (scratch worktree /tmp/wt_verify): patch applies, go build ./... ok, full existing suite passes with the change, demo fails with the change and passes without",
 "how_to_run_checks":"./try_mutant.sh /verif/seeded/%s/patch.diff <property ids>   (applies to /repo, runs the checks, reverts)"%id},indent=1))
PY
    echo "$id: CONFIRMED ($pkg)"
  else
    echo "$id: NOT CONFIRMED"; echo "$out"
  fi
done
