#!/bin/bash
# Build the engine offline from files on disk only.
set -e
cd "$(dirname "$0")"
export GOFLAGS=-mod=mod GOPROXY=off GOSUMDB=off GOTOOLCHAIN=local
mkdir -p bin evidence replays
(cd engine && go build -o ../bin/gosym .)
./validate.sh || { echo "setup: model validation against the real libraries FAILED"; exit 1; }
echo "setup ok: $(./bin/gosym -h 2>&1 | head -1)"
