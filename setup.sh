#!/bin/bash
# Build the engine offline from files on disk only.
set -e
cd "$(dirname "$0")"
export GOFLAGS=-mod=mod GOPROXY=off GOSUMDB=off GOTOOLCHAIN=local
mkdir -p bin evidence replays
(cd engine && go build -o ../bin/gosym .)
# encoder unit tests (regex NFA encoding against the real regexp package)
(cd engine && go test -count=1 . > /tmp/verif_enginetest.log 2>&1) || { cat /tmp/verif_enginetest.log; echo "setup: engine unit tests FAILED"; exit 1; }
# translator validation: the repository's own test vectors through the engine in concrete mode
export VERIF_DIR="$(pwd)"
for h in asn1parser-vectors hashing-vectors; do
  ./bin/gosym -prop SELFTEST -tier quick -only $h > /tmp/verif_selftest.log 2>&1 || { cat /tmp/verif_selftest.log; echo "setup: translator self-test FAILED ($h)"; exit 1; }
done
./validate.sh || { echo "setup: model validation against the real libraries FAILED"; exit 1; }
echo "setup ok: $(./bin/gosym -h 2>&1 | head -1)"
