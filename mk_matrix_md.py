#!/usr/bin/env python3
"""usage: mk_matrix_md.py <matrix log>  -> markdown table (stdout)"""
import sys,json,os,re
rows=[]
for l in open(sys.argv[1]):
    l=l.strip()
    m=re.match(r'^(M\d+-\d) \[(C\d+)\] (.*)$',l)
    if not m: continue
    mid,target,rest=m.groups()
    cells=dict(c.split(':') for c in rest.split())
    caught=[p for p,v in cells.items() if v=='VIOLATION']
    inc=[p for p,v in cells.items() if v=='inconclusive']
    quiet=[p for p,v in cells.items() if v=='-']
    meta=json.load(open(f'/verif/seeded/{mid}/meta.json'))
    need=meta['needs_to_manifest']
    if len(need)>150: need=need[:147]+'...'
    rows.append((mid,target,caught,inc,quiet,need))
print("| change | target | caught by (VIOLATION) | also run, quiet | what it needs to manifest |")
print("|---|---|---|---|---|")
for mid,target,caught,inc,quiet,need in rows:
    c=', '.join(('**'+p+'**' if p==target else p) for p in caught) or '—'
    if inc: c+=' (inconclusive: '+', '.join(inc)+')'
    print(f"| {mid} | {target} | {c} | {', '.join(quiet)} | {need} |")
n=len(rows); hit=sum(1 for r in rows if r[2]); own=sum(1 for r in rows if r[1] in r[2])
print(f"\n{n} changes, {hit} caught by at least one check, {own} caught by the check of the targeted property itself.")
