#!/usr/bin/env python3
"""usage: mk_matrix_md.py <matrix log> [<matrix log> ...]  -> markdown table (stdout); later files override earlier ones per id"""
import sys,json,os,re
rows={}
for fn in sys.argv[1:]:
    for l in open(fn):
        l=l.strip()
        m=re.match(r'^(M\d+-\d) \[(C\d+)\] (.*)$',l)
        if not m: continue
        mid,target,rest=m.groups()
        cells=dict(c.split(':') for c in rest.split())
        rows[mid]=(target,cells)
print("| change | breaks | caught by (VIOLATION; bold = the check of the targeted property) | inconclusive | what it needs to manifest |")
print("|---|---|---|---|---|")
n=hit=own=0
missed=[]
for mid in sorted(rows, key=lambda x:(int(x[1:].split('-')[0]),x)):
    target,cells=rows[mid]
    caught=[p for p,v in cells.items() if v=='VIOLATION']
    inc=[p for p,v in cells.items() if v=='inconclusive']
    skipped=[p for p,v in cells.items() if v=='skipped']
    meta=json.load(open(f'/verif/seeded/{mid}/meta.json'))
    need=meta['needs_to_manifest'].replace('|','/')
    if len(need)>140: need=need[:137]+'...'
    c=', '.join(('**'+p+'**' if p==target else p) for p in caught) or '—'
    print(f"| {mid} | {target} | {c} | {', '.join(inc)} | {need} |")
    n+=1; hit+= 1 if caught else 0; own+= 1 if target in caught else 0
    if not caught: missed.append(mid)
print(f"\n{n} changes; {hit} caught by at least one check (VIOLATION), {own} by the check of the property the author named; not caught: {', '.join(missed) or 'none'}.")
