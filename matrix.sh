#!/bin/bash
# usage: matrix.sh [tier] [id-pattern] [lanes]
# For every seeded change (seeded/<pattern>, default M*): apply it to a scratch worktree of the repository,
# run the checks of every property whose anchored code the change touches, one line per change.
# Runs <lanes> changes in parallel, each lane in its own worktree (VERIF_REPO) with its own output
# directory (VERIF_OUT), so /repo and /verif/evidence are never touched.
T=${1:-quick}; PAT=${2:-M*}; LANES=${3:-4}
cd "$(dirname "$0")"; V=$(pwd)
R=${VERIF_REPO:-/repo}
W=$((16 / LANES)); [ $W -lt 2 ] && W=2
mkdir -p matrix_logs
RUNID=$$   # lanes of concurrent runs must never share a worktree
OUT=matrix_logs/MATRIX_$(date +%Y%m%d_%H%M%S)_$T.txt
ids=${IDS:-$(cd seeded && ls -d $PAT 2>/dev/null | grep '^M[0-9]' )}
props_for() {
  local props=""
  for f in $(grep '^+++ b/' $1 | sed 's|+++ b/||'); do
    case $f in
      revocation.go|configparser.go|caddyfile.go|config/*) props="$props C03 C19 C01";;
      crl/crlrevocationchecker.go) props="$props C10 C15 C13 C01 C20 C09 C17";;
      crl/crlrepository/*) props="$props C08 C09 C10 C11 C12 C13 C16 C04 C01 C15 C20 C17";;
      crl/crlstore/*) props="$props C18 C09 C08 C11 C12 C16 C10 C01 C20 C17";;
      crl/crlloader/*) props="$props C20 C10 C15 C17";;
      core/hashing/hashes.go) props="$props C18 C11 C01";;
      core/crlstructures.go) props="$props C18 C01 C12";;
      crl/crlreader/*|core/asn1parser/*|core/hashing/*|core/signatureverify/*|core/pemreader/*) props="$props C06 C07 C04 C01 C08 C11 C17";;
      ocsp/*) props="$props C02 C05 C14 C13";;
      core/certificatechains.go) props="$props C04 C02 C05 C07";;
      *) props="$props C01";;
    esac
  done
  echo $props | tr ' ' '\n' | sort -u | tr '\n' ' '
}
lane() {
  local i=$1; shift
  local wt=/tmp/mx_lane_${RUNID}_$i
  git -C $R worktree remove --force $wt >/dev/null 2>&1; rm -rf $wt
  git -C $R worktree add -q --detach $wt HEAD || return
  export VERIF_REPO=$wt VERIF_OUT=/tmp/mx_out_${RUNID}_$i
  mkdir -p $VERIF_OUT
  for id in "$@"; do
    d=seeded/$id
    git -C $wt checkout -q -- . ; git -C $wt clean -fdq
    git -C $wt apply "$V/$d/patch.diff" || { echo "$id: patch does not apply" >> $OUT; continue; }
    line="$id [$(python3 -c 'import json,sys;print(json.load(open(sys.argv[1]))["breaks_property"])' $d/meta.json)]"
    tgt=$(python3 -c 'import json,sys;print(json.load(open(sys.argv[1]))["breaks_property"])' $d/meta.json)
    all=$(props_for $d/patch.diff)
    # the check of the property the author named goes first; with FIRSTHIT=1 the remaining checks are skipped
    # once one check has reported a VIOLATION (enough to know the change is caught, and by what)
    ordered="$tgt $(echo $all | tr ' ' '\n' | grep -v "^$tgt\$" | tr '\n' ' ')"
    hit=0
    for p in $ordered; do
      if [ "$FIRSTHIT" = "1" ] && [ $hit -eq 1 ]; then line="$line $p:skipped"; continue; fi
      timeout 1500 ./check $p $T -workers $W > matrix_logs/${id}_$p.log 2>&1; rc=$?
      if [ $rc -eq 1 ]; then line="$line $p:VIOLATION"; hit=1; elif [ $rc -ne 0 ]; then line="$line $p:inconclusive"; else line="$line $p:-"; fi
    done
    echo "$line" | tee -a $OUT
  done
  git -C $R worktree remove --force $wt >/dev/null 2>&1; rm -rf $wt $VERIF_OUT
}
n=0; declare -a L
for id in $ids; do L[$((n % LANES))]="${L[$((n % LANES))]} $id"; n=$((n+1)); done
for i in $(seq 0 $((LANES-1))); do [ -n "${L[$i]}" ] && lane $i ${L[$i]} & done
wait
sort -o $OUT $OUT
echo "matrix written to $OUT"
