#!/bin/bash
# usage: matrix.sh [tier]  - for every seeded change: apply to $VERIF_REPO (default /repo), run every registered quick check, revert.
T=${1:-quick}
R=${VERIF_REPO:-/repo}
props=$(python3 -c "import json;print(' '.join(c['property_id'] for c in json.load(open('MANIFEST.json'))['checks']))")
mkdir -p matrix_logs
for d in seeded/M*/; do
  id=$(basename $d)
  git -C $R checkout -q -- . ; git -C $R apply "$(pwd)/${d}patch.diff" || { echo "$id: patch does not apply"; continue; }
  line="$id"
  for p in $props; do
    ./check $p $T > matrix_logs/${id}_$p.log 2>&1; rc=$?
    if [ $rc -eq 1 ]; then line="$line $p:VIOLATION"; elif [ $rc -ne 0 ]; then line="$line $p:inconclusive"; fi
  done
  git -C $R checkout -q -- .
  echo "$line"
done
