#!/bin/bash
# usage: matrix.sh [tier] - for every seeded change: apply to $VERIF_REPO (default /repo), run the checks of every
# property whose anchored code the change touches, revert. One line per change.
T=${1:-quick}
R=${VERIF_REPO:-/repo}
mkdir -p matrix_logs
for d in seeded/M*/; do
  id=$(basename $d)
  files=$(grep '^+++ b/' $d/patch.diff | sed 's|+++ b/||')
  props=""
  for f in $files; do
    case $f in
      revocation.go|configparser.go|caddyfile.go|config/*) props="$props C03 C19 C01";;
      crl/crlrevocationchecker.go) props="$props C10 C15 C13 C01 C20";;
      crl/crlrepository/*) props="$props C08 C09 C10 C11 C12 C13 C16 C04 C01 C15 C20";;
      crl/crlstore/*) props="$props C18 C09 C08 C11 C12 C16 C10 C01 C20";;
      crl/crlloader/*) props="$props C20 C10 C15";;
      crl/crlreader/*|core/asn1parser/*|core/hashing/*|core/signatureverify/*|core/pemreader/*) props="$props C06 C07 C04 C01";;
      ocsp/*) props="$props C02 C05 C14 C13";;
      core/certificatechains.go) props="$props C04 C02 C05";;
      *) props="$props C01";;
    esac
  done
  props=$(echo $props | tr ' ' '\n' | sort -u | tr '\n' ' ')
  git -C $R checkout -q -- . ; git -C $R apply "$(pwd)/${d}patch.diff" || { echo "$id: patch does not apply"; continue; }
  line="$id [$(cat $d/meta.json | python3 -c 'import json,sys;print(json.load(sys.stdin)["breaks_property"])')]"
  for p in $props; do
    timeout 1500 ./check $p $T > matrix_logs/${id}_$p.log 2>&1; rc=$?
    if [ $rc -eq 1 ]; then line="$line $p:VIOLATION"; elif [ $rc -ne 0 ]; then line="$line $p:inconclusive"; else line="$line $p:-"; fi
  done
  git -C $R checkout -q -- .
  echo "$line"
done
