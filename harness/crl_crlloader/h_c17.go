package crlloader

import (
	"context"
	"io"
	"io/fs"
	"net/http"
	"os"
	"time"

	"github.com/gr33nbl00d/caddy-revocation-validator/zz_verif/verifrt"
	"go.uber.org/zap"
	"go.uber.org/zap/zapcore"
)

// ---- a source of n bytes (n may be symbolic): the content is irrelevant, only sizes are tracked ----
type sizedSrc struct {
	n, pos int
	closed bool
}

func (s *sizedSrc) Read(p []byte) (int, error) {
	if len(p) == 0 {
		return 0, nil
	}
	rem := s.n - s.pos
	if rem <= 0 {
		return 0, io.EOF
	}
	k := len(p)
	if k > rem {
		k = rem
	}
	s.pos += k
	return k, nil
}
func (s *sizedSrc) Close() error { s.closed = true; return nil }

type c17File struct {
	src     *sizedSrc // reading
	written int       // writing
}

var (
	c17Files  map[*os.File]*c17File
	c17Source *sizedSrc
	c17Target *c17File
	c17Names  map[string]bool // files that exist (by path)
	c17Eff    int             // file-system effects so far (create, write, rename, remove)
	c17Crash  int             // the process dies right after this many effects (-1: never)
	c17Debug  bool            // debug logging enabled
)

func c17Effect() {
	c17Eff++
	if c17Crash >= 0 && c17Eff == c17Crash {
		verifrt.Crash()
	}
}

type c17Stat struct{}

func (c17Stat) Name() string       { return "crl" }
func (c17Stat) Size() int64        { return 0 }
func (c17Stat) Mode() fs.FileMode  { return 0600 }
func (c17Stat) ModTime() time.Time { return time.Time{} }
func (c17Stat) IsDir() bool        { return false }
func (c17Stat) Sys() interface{}   { return nil }

type onlyWriter struct{ f *os.File }

func (w onlyWriter) Write(p []byte) (int, error) { return w.f.Write(p) }

func installC17World(n int) {
	c17Files = map[*os.File]*c17File{}
	c17Source = &sizedSrc{n: n}
	c17Target = nil
	c17Names = map[string]bool{}
	c17Eff, c17Crash = 0, -1
	verifrt.Override("os.Stat", func(name string) (os.FileInfo, error) { return c17Stat{}, nil })
	verifrt.Override("os.OpenFile", func(name string, flag int, perm os.FileMode) (*os.File, error) {
		f := new(os.File)
		if flag&os.O_WRONLY != 0 {
			c17Target = &c17File{}
			c17Files[f] = c17Target
			if flag&os.O_CREATE != 0 {
				c17Names[name] = true
				c17Effect()
			}
		} else {
			c17Files[f] = &c17File{src: c17Source}
		}
		return f, nil
	})
	verifrt.Override("(*os.File).Read", func(f *os.File, p []byte) (int, error) { return c17Files[f].src.Read(p) })
	verifrt.Override("(*os.File).Write", func(f *os.File, p []byte) (int, error) {
		c17Files[f].written += len(p)
		c17Effect()
		return len(p), nil
	})
	verifrt.Override("os.Rename", func(a, b string) error {
		if !c17Names[a] {
			return verifrt.NewError("rename: no such file")
		}
		delete(c17Names, a)
		c17Names[b] = true
		c17Effect()
		return nil
	})
	verifrt.Override("os.Remove", func(a string) error {
		if !c17Names[a] {
			return verifrt.NewError("remove: no such file")
		}
		delete(c17Names, a)
		c17Effect()
		return nil
	})
	verifrt.Override("(*os.File).Close", func(f *os.File) error { return nil })
	// what os.genericReadFrom does when the kernel offers no shortcut: the plain io.Copy loop
	verifrt.Override("(*os.File).ReadFrom", func(f *os.File, r io.Reader) (int64, error) { return io.Copy(onlyWriter{f}, r) })
	// (*os.File).WriteTo likewise (Go 1.22+)
	verifrt.Override("(*os.File).WriteTo", func(f *os.File, w io.Writer) (int64, error) {
		return io.Copy(w, struct{ io.Reader }{c17Files[f].src})
	})
	// whole-file helpers: they hold the complete document in one buffer
	verifrt.Override("os.ReadFile", func(name string) ([]byte, error) { return make([]byte, c17Source.n), nil })
	verifrt.Override("os.WriteFile", func(name string, data []byte, perm os.FileMode) error {
		c17Target = &c17File{written: len(data)}
		return nil
	})
	verifrt.Override("net/http.Get", func(url string) (*http.Response, error) {
		return &http.Response{StatusCode: 200, Body: c17Source}, nil
	})
	// the explicit form: NewRequest + Client.Do. net/http's contract: the transport asks for gzip and unpacks it
	// transparently ONLY if the caller did not set Accept-Encoding itself; otherwise the caller gets the
	// compressed bytes as they are (here: a body of a different length than the document)
	verifrt.OverrideIfPresent("net/http.NewRequest", func(method, u string, b io.Reader) (*http.Request, error) {
		return &http.Request{Method: method, Header: http.Header{}}, nil
	})
	verifrt.OverrideIfPresent("net/http.NewRequestWithContext", func(ctx context.Context, method, u string, b io.Reader) (*http.Request, error) {
		return &http.Request{Method: method, Header: http.Header{}}, nil
	})
	verifrt.OverrideIfPresent("(net/http.Header).Set", func(h http.Header, k, v string) { h[k] = []string{v} })
	verifrt.OverrideIfPresent("(net/http.Header).Add", func(h http.Header, k, v string) { h[k] = append(h[k], v) })
	verifrt.OverrideIfPresent("(*net/http.Client).Do", func(c *http.Client, r *http.Request) (*http.Response, error) {
		if len(r.Header["Accept-Encoding"]) > 0 || len(r.Header["accept-encoding"]) > 0 {
			return &http.Response{StatusCode: 200, Body: &sizedSrc{n: c17Source.n / 2}}, nil
		}
		return &http.Response{StatusCode: 200, Body: c17Source}, nil
	})
	// the level of the logger is configuration: debug output may be on or off
	verifrt.Override("(go.uber.org/zap/zapcore.nopCore).Enabled", func(l zapcore.Level) bool { return c17Debug })
	// httputil.DumpResponse(resp, true) reads the whole body into memory and puts a copy back
	verifrt.OverrideIfPresent("net/http/httputil.DumpResponse", func(resp *http.Response, body bool) ([]byte, error) {
		if !body {
			return nil, nil
		}
		all, err := io.ReadAll(resp.Body)
		if err != nil {
			return nil, err
		}
		resp.Body = &sizedSrc{n: len(all)}
		return all, nil
	})
}

// VerifC17_Loaders: fetching a CRL of n bytes - from a file or from a URL - into the work directory
// (a) writes exactly n bytes for EVERY n up to max (n symbolic), and (b) uses buffers whose largest one
// is the same for a 100 000-byte and a 300 000-byte document and smaller than either: the document is
// streamed, never held in memory as a whole, whatever constant buffer size the implementation picks.
func VerifC17_Loaders() {
	useURL := verifrt.Choose(2) == 1
	debug := verifrt.Choose(2) == 1 // log level debug or above
	load := func() error {
		if !useURL {
			l := &FileLoader{FileName: "/etc/pki/ca.crl", Logger: zap.NewNop()}
			verifrt.Reach("file-loader")
			return l.copyToTargetFile("/work/crl_tmp_1")
		}
		l := &URLLoader{UrlString: "http://pki.example.com/ca.crl", Logger: zap.NewNop()}
		verifrt.Reach("url-loader")
		return l.downloadCRL("http://pki.example.com/ca.crl", "/work/crl_tmp_1")
	}
	if verifrt.Choose(2) == 1 {
		max := verifrt.Param("max", 100000)
		n := verifrt.NondetInt("n")
		verifrt.Assume(n >= 0)
		verifrt.Assume(n <= max)
		installC17World(n)
		c17Debug = debug
		verifrt.KeepSymbolicBounds(true)
		err := load()
		verifrt.Assert(err == nil, "copy of a readable source succeeds")
		verifrt.Assert(c17Target != nil && c17Target.written == n, "exactly the n bytes of the source are written")
		verifrt.Reach("streamed")
		return
	}
	measure := func(n int) int {
		installC17World(n)
		c17Debug = debug
		verifrt.MaxAlloc(true)
		err := load()
		verifrt.Assert(err == nil && c17Target != nil && c17Target.written == n, "the document is copied completely")
		return verifrt.MaxAlloc(false)
	}
	m1 := measure(100000)
	m3 := measure(300000)
	verifrt.Assert(m1 == m3, "the largest buffer does not depend on the size of the document")
	verifrt.Reach("buffers-compared")
}

// VerifC20_DownloadArtefacts: the REAL file and URL loaders fetch a document into the temporary file the
// repository created for them (work_dir/crl_<n>_tmp). Whatever happens - success, a source that breaks
// off, or the process dying right after ANY file-system effect of the loader - nothing exists afterwards
// but that one file: so the repository's own deferred removal, or after a crash the start-up sweep
// (^crl_.*_tmp$), leaves the work_dir clean. (No second artefact under a name the sweep does not know.)
func VerifC20_DownloadArtefacts() {
	const target = "/work/crl_424242_tmp"
	installC17World(70000)
	c17Names[target] = true // created by the repository (os.CreateTemp) before the loader is called
	c17Crash = -1
	if k := verifrt.Choose(verifrt.Param("maxeffects", 8) + 1); k > 0 {
		c17Crash = k
	}
	useURL := verifrt.Choose(2) == 1
	crashed := verifrt.CatchCrash(func() {
		if useURL {
			l := &URLLoader{UrlString: "http://pki.example.com/ca.crl", Logger: zap.NewNop()}
			_ = l.downloadCRL("http://pki.example.com/ca.crl", target)
		} else {
			l := &FileLoader{FileName: "/etc/pki/ca.crl", Logger: zap.NewNop()}
			_ = l.copyToTargetFile(target)
		}
	})
	if crashed {
		verifrt.Reach("died-during-download")
	} else {
		verifrt.Reach("download-returned")
	}
	for name := range c17Names {
		verifrt.Assert(name == target, "the loader leaves nothing behind but the temporary file it was given (which the repository removes and the start-up sweep knows)")
	}
}
