package crlloader

import (
	"hash"

	"github.com/gr33nbl00d/caddy-revocation-validator/core"
	"go.uber.org/zap"

	"github.com/gr33nbl00d/caddy-revocation-validator/zz_verif/verifrt"
)

// sha256 model: 32 arbitrary bytes (the digest of an arbitrary location string)
type digestModel struct{ out []byte }

func (d *digestModel) Write(p []byte) (int, error) { return len(p), nil }
func (d *digestModel) Sum(b []byte) []byte         { return append(b, d.out...) }
func (d *digestModel) Reset()                      {}
func (d *digestModel) Size() int                   { return 32 }
func (d *digestModel) BlockSize() int              { return 64 }

// VerifC20_Identifier: for ALL 32 digest bytes the store identifier is 64 characters of [0-9a-f]:
// hence work_dir/<identifier> is a direct child of work_dir whatever the location string contains,
// and an identifier can never look like a temporary artefact (^crl_.*_tmp$).
func VerifC20_Identifier() {
	dig := verifrt.NondetBytes("digest", 32)
	verifrt.Override("crypto/sha256.New", func() hash.Hash { return &digestModel{out: dig} })
	loc := verifrt.NondetString("location")
	_ = loc
	id := calculateHashHexString("any location")
	verifrt.Assert(len(id) == 64, "identifier has 64 characters")
	for i := 0; i < len(id); i++ {
		c := id[i]
		isHex := verifrt.Or(verifrt.And(c >= '0', c <= '9'), verifrt.And(c >= 'a', c <= 'f'))
		verifrt.Assert(isHex, "identifier character is a lower-case hex digit (no separator, dot, or 'crl_' prefix possible)")
	}
	verifrt.Reach("identifier")
}

// VerifC20_Identity: identifiers are a function of the location (same location, same store, also
// after a restart), and the identifier of a distribution-point set is injective in the ordered list
// of its HTTP members (given a collision-free digest, which the property assumes).
func VerifC20_Identity() {
	verifrt.Override("github.com/gr33nbl00d/caddy-revocation-validator/crl/crlloader.calculateHashHexString", func(s string) string {
		h := verifrt.UFStr("sha256hex", s)
		verifrt.Assume(len(h) == 64)
		return h
	})
	verifrt.Override("(*github.com/gr33nbl00d/caddy-revocation-validator/crl/crlloader.URLLoader).normalizeUrl", func(l *URLLoader) (string, error) { return l.UrlString, nil })
	var u1, u2 string
	switch verifrt.Choose(4) {
	case 0: // two arbitrary distinct location strings
		u1, u2 = verifrt.NondetString("u1"), verifrt.NondetString("u2")
		verifrt.Assume(u1 != u2)
	case 1: // distinct only by the case of the (case-sensitive) path
		u1, u2 = "http://pki.example.com/crl/RootCA.crl", "http://pki.example.com/crl/rootca.crl"
	case 2: // distinct only by a trailing separator
		u1, u2 = "http://pki.example.com/crl", "http://pki.example.com/crl/"
	case 3: // distinct only by an encoded separator
		u1, u2 = "http://pki.example.com/a%2Fb.crl", "http://pki.example.com/a/b.crl"
	}
	a := &URLLoader{UrlString: u1}
	b := &URLLoader{UrlString: u2}
	ia, _ := a.GetCRLLocationIdentifier()
	ia2, _ := (&URLLoader{UrlString: u1}).GetCRLLocationIdentifier()
	ib, _ := b.GetCRLLocationIdentifier()
	verifrt.Assert(ia == ia2, "the same URL maps to the same store")
	verifrt.Assert(ia != ib, "distinct URLs never share a store")
	m12 := &MultiSchemesCRLLoader{Loaders: []CRLLoader{a, b}}
	m21 := &MultiSchemesCRLLoader{Loaders: []CRLLoader{b, a}}
	m1 := &MultiSchemesCRLLoader{Loaders: []CRLLoader{a}}
	i12, _ := m12.GetCRLLocationIdentifier()
	i12b, _ := (&MultiSchemesCRLLoader{Loaders: []CRLLoader{a, b}}).GetCRLLocationIdentifier()
	i21, _ := m21.GetCRLLocationIdentifier()
	i1, _ := m1.GetCRLLocationIdentifier()
	verifrt.Assert(i12 == i12b, "the same distribution-point set maps to the same store")
	verifrt.Assert(i12 != i1, "a set and its sub-list do not share a store")
	verifrt.Assert(i12 != i21 || u1 == u2, "differently ordered sets do not share a store")
	verifrt.Reach("identity")
	// a file and a URL with the same text
	f := &FileLoader{FileName: u1}
	fi, _ := f.GetCRLLocationIdentifier()
	verifrt.Assert(fi != ia, "a crl_file and a crl_url never share a store")
}

// VerifC20_FactoryIdentity: the loader the factory builds for a location keeps the location exactly as
// given (the URL that is downloaded and hashed is the URL of the certificate / configuration, path case
// included), for crl_url, crl_file and distribution-point sets; distribution points that differ only in
// the case of the path, a trailing separator or an encoded separator get different stores.
func VerifC20_FactoryIdentity() {
	verifrt.Override("github.com/gr33nbl00d/caddy-revocation-validator/crl/crlloader.calculateHashHexString", func(s string) string {
		h := verifrt.UFStr("sha256hex", s)
		verifrt.Assume(len(h) == 64)
		return h
	})
	// the real normalizeUrl / net/url.Parse run here (concrete locations)
	pairs := [][2]string{
		{"http://pki.example.com/crl/RootCA.crl", "http://pki.example.com/crl/rootca.crl"},
		{"HTTP://PKI.example.com/CRL", "http://pki.example.com/crl"},
		{"https://pki.example.com/a%2Fb.crl", "https://pki.example.com/a/b.crl"},
		{"http://pki.example.com/Issuing-CA.crl", "http://pki.example.com/issuing-ca.crl"},
		{"http://pki.example.com/certdist?cmd=crl&issuer=CN%3DA", "http://pki.example.com/certdist?cmd=crl&issuer=CN%3DB"},
		{"http://pki.example.com/crl?ca=1", "http://pki.example.com/crl?ca=2"},
		{"http://pki.example.com:8080/crl", "http://pki.example.com:8081/crl"},
		{"http://a.example.com/crl#x", "http://b.example.com/crl#x"},
	}
	p := pairs[verifrt.Choose(len(pairs))]
	f := DefaultCRLLoaderFactory{}
	kind := verifrt.Choose(3)
	mk := func(u string) (CRLLoader, error) {
		switch kind {
		case 0:
			return f.CreatePreferredCrlLoader(&core.CRLLocations{CRLUrl: u}, zap.NewNop())
		case 1:
			return f.CreatePreferredCrlLoader(&core.CRLLocations{CRLFile: u}, zap.NewNop())
		}
		return f.CreatePreferredCrlLoader(&core.CRLLocations{CRLDistributionPoints: []string{"ldap://dir/cn=x", u}}, zap.NewNop())
	}
	la, e1 := mk(p[0])
	lb, e2 := mk(p[1])
	verifrt.Assert(e1 == nil && e2 == nil, "a loader exists for an http(s) location")
	if e1 != nil || e2 != nil {
		return
	}
	kept := func(l CRLLoader, u string) bool {
		switch x := l.(type) {
		case *URLLoader:
			return x.UrlString == u
		case *FileLoader:
			return x.FileName == u
		case *MultiSchemesCRLLoader:
			if len(x.Loaders) != 1 {
				return false
			}
			ul, ok := x.Loaders[0].(*URLLoader)
			return ok && ul.UrlString == u
		}
		return false
	}
	verifrt.Assert(kept(la, p[0]) && kept(lb, p[1]), "the loader downloads exactly the location it was given (nothing normalised away)")
	ia, _ := la.GetCRLLocationIdentifier()
	ib, _ := lb.GetCRLLocationIdentifier()
	verifrt.Assert(ia != ib, "locations that differ only in case or separators never share a store")
	verifrt.Reach("factory-identity")
}
