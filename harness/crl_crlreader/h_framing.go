package crlreader

import (
	"crypto"
	"crypto/x509"
	"crypto/x509/pkix"

	"github.com/gr33nbl00d/caddy-revocation-validator/zz_verif/verifrt"
)

// shape of a generated CRL skeleton; every content byte is symbolic
type shape struct {
	hasVersion, hasNext, hasList, hasExt bool
	k                                    int // entries
	cls                                  int // length-encoding class of the variable-length elements
	entryLen                             int
}

type plan struct {
	file                    []byte
	tbsOff, tbsLen          int
	entryOff, entryLen      []int
	innerAlg, issuer        []byte
	outerAlg, sigContent    []byte
	extSeq                  []byte
	versionByte             byte
}

func build(s shape) *plan {
	p := &plan{}
	var version []byte
	if s.hasVersion {
		p.versionByte = verifrt.NondetU8("version")
		version = []byte{0x02, 0x01, p.versionByte}
	}
	p.innerAlg = wrap(0x30, 0, sym("alg", 5))
	p.issuer = wrap(0x30, s.cls, sym("issuer", 6))
	thisUpd := wrap(0x17, 0, sym("thisupd", 13))
	var nextUpd []byte
	if s.hasNext {
		nextUpd = wrap(0x17, 0, sym("nextupd", 13))
	}
	var list []byte
	var entries [][]byte
	if s.hasList {
		for i := 0; i < s.k; i++ {
			entries = append(entries, wrap(0x30, s.cls, sym("entry", s.entryLen)))
		}
		list = wrap(0x30, s.cls, entries...)
	}
	var ext []byte
	if s.hasExt {
		p.extSeq = wrap(0x30, s.cls, sym("exts", 7))
		ext = wrap(0xa0, s.cls, p.extSeq)
	}
	tbs := wrap(0x30, s.cls, version, p.innerAlg, p.issuer, thisUpd, nextUpd, list, ext)
	p.outerAlg = wrap(0x30, 0, sym("sigalg", 5))
	// the signature may be long enough to put the outer SEQUENCE into another length class than tbsCertList
	p.sigContent = sym("sig", verifrt.Param("siglen", 4))
	sig := wrap(0x03, 0, []byte{0}, p.sigContent)
	p.file = wrap(0x30, s.cls, tbs, p.outerAlg, sig)
	outerHdr := len(p.file) - len(tbs) - len(p.outerAlg) - len(sig)
	p.tbsOff, p.tbsLen = outerHdr, len(tbs)
	if s.hasList {
		// offsets of the entries inside the file
		off := outerHdr + (len(tbs) - len(ext) - len(list)) + (len(list) - totalLen(entries))
		for _, e := range entries {
			p.entryOff = append(p.entryOff, off)
			p.entryLen = append(p.entryLen, len(e))
			off += len(e)
		}
	}
	return p
}

func totalLen(bs [][]byte) int {
	n := 0
	for _, b := range bs {
		n += len(b)
	}
	return n
}

func chooseShape() shape {
	s := shape{}
	if verifrt.Param("fixedshape", 0) == 1 {
		// the maximal shape: every optional element present
		k := verifrt.Param("K", 1)
		return shape{hasVersion: true, hasNext: true, hasList: k > 0, hasExt: true, k: k, cls: verifrt.Param("cls", 0), entryLen: verifrt.Param("entrylen", 5)}
	}
	s.hasVersion = verifrt.Choose(2) == 1
	s.hasNext = verifrt.Choose(2) == 1
	s.hasExt = verifrt.Choose(2) == 1
	kmax := verifrt.Param("K", 2)
	minK := verifrt.Param("minK", 0)
	s.k = minK + verifrt.Choose(kmax+1-minK)
	s.hasList = s.k > 0
	if verifrt.Param("emptylist", 0) == 1 && s.k == 0 {
		s.hasList = verifrt.Choose(2) == 1
	}
	s.cls = verifrt.Choose(verifrt.Param("classes", 2))
	s.entryLen = verifrt.Param("entrylen", 5)
	return s
}

// VerifC06_Framing: for every skeleton shape and all content bytes, the streaming reader hands the
// consumer exactly the reference windows (C06), digests exactly tbsCertList (C04a), loses or
// duplicates no entry (C01-L1a), rejects unknown versions and unhandled critical extensions (C06),
// and never panics / over-allocates (C07).
func VerifC06_Framing() {
	s := chooseShape()
	installModels(4096)
	fill = -1
	p := build(s)
	verifrt.AllocBudget(len(p.file) + 81920 + 17)
	algIdx := verifrt.Choose(verifrt.Param("algs", 2))
	algOID = oidTable[algIdx]
	// extension model: up to 2 extensions, OID from a table, critical flag symbolic
	var crit0, crit1 bool
	var oid0, oid1 int
	next := 0
	if s.hasExt {
		full := verifrt.Param("extfull", 0) == 1
		next = 1
		if full {
			next = 1 + verifrt.Choose(2)
		}
		oids := []pkix.Extension{{Id: oidAKI}, {Id: oidCRLNum}, {Id: oidDelta}, {Id: oidIDP}}
		if full {
			oid0 = verifrt.Choose(4)
		} else {
			oid0 = 2 * verifrt.Choose(2) // AKI or deltaCRLIndicator
		}
		crit0 = verifrt.NondetBool("crit0")
		e0 := oids[oid0]
		e0.Critical = crit0
		e0.Value = sym("extval0", 4)
		extsModel = []pkix.Extension{e0}
		if next == 2 {
			oid1 = verifrt.Choose(4)
			crit1 = verifrt.NondetBool("crit1")
			e1 := oids[oid1]
			e1.Critical = crit1
			e1.Value = sym("extval1", 4)
			extsModel = append(extsModel, e1)
		}
	} else {
		extsModel = nil
	}
	path := verifrt.PutFile("crl.der", p.file, len(p.file))
	proc := &recProc{}
	res, err := StreamingCRLFileReader{}.ReadCRL(proc, path)

	unknownVersion := s.hasVersion && p.versionByte >= 2
	unhandledCritical := verifrt.Or(verifrt.And(next >= 1 && oid0 >= 2, crit0), verifrt.And(next == 2 && oid1 >= 2, crit1))
	unsupportedAlg := algIdx >= 4
	// CRL number value must itself be a DER INTEGER for the reader to accept it
	crlNumPresent := (next >= 1 && oid0 == 1) || (next == 2 && oid1 == 1)

	if unknownVersion {
		verifrt.Reach("unknown-version")
		verifrt.Assert(err != nil, "unknown CRL version is rejected")
		verifrt.Assert(res == nil, "no result for unknown version")
		return
	}
	if unsupportedAlg {
		verifrt.Reach("unsupported-alg")
		verifrt.Assert(err != nil && res == nil, "unsupported signature algorithm is rejected")
		return
	}
	if s.hasExt && !(s.hasVersion && p.versionByte == 1) {
		// crlExtensions in a CRL that does not declare v2: malformed, any non-crashing outcome is fine
		verifrt.Reach("ext-without-v2")
		return
	}
	// an unhandled critical extension must never yield a result (whatever else is wrong with the CRL)
	verifrt.Assert(verifrt.Implies(unhandledCritical, err != nil && res == nil), "unhandled critical extension is rejected")
	if crlNumPresent {
		// value bytes are arbitrary: an error is legitimate; nothing more to check on this path
		if err != nil {
			verifrt.Reach("crlnumber-malformed")
			return
		}
	}
	if unhandledCritical {
		verifrt.Reach("critical-ext")
		return
	}
	verifrt.Reach("wellformed")
	verifrt.Assert(err == nil, "well-formed CRL is accepted")
	if err != nil {
		return
	}
	// consumer callbacks: start, k inserts, ext - in that order
	verifrt.Assert(len(proc.events) == s.k+2, "callback count")
	verifrt.Assert(proc.events[0] == "start" && proc.events[len(proc.events)-1] == "ext", "callback order")
	verifrt.Assert(len(proc.inserts) == s.k, "every entry inserted exactly once")
	// windows given to the decoder, by kind (how often and in which order the reader decodes an element is
	// its own business; WHAT it decodes, and what it hands on, is the property):
	//   algorithm identifiers: only the inner and the outer one, both of them
	//   names: only the issuer; the returned issuer is a decoded one
	//   entries: exactly the k entries, in order, each handed to the consumer
	//   extensions: exactly the crlExtensions sequence, iff present
	var entryWins []win
	sawInner, sawOuter, sawIssuer, sawExts, issuerReturned := false, false, false, false, false
	for _, w := range wins {
		switch w.kind {
		case "alg":
			isInner, isOuter := eqBytes(w.b, p.innerAlg), eqBytes(w.b, p.outerAlg)
			verifrt.Assert(verifrt.Or(isInner, isOuter), "an algorithm identifier is decoded only from the inner or the outer signature algorithm element")
			sawInner = verifrt.Or(sawInner, isInner)
			sawOuter = verifrt.Or(sawOuter, isOuter)
		case "rdn":
			verifrt.Assert(eqBytes(w.b, p.issuer), "a name is decoded only from the issuer element")
			sawIssuer = true
			if w.obj == interface{}(res.Issuer) {
				issuerReturned = true
			}
		case "entry":
			entryWins = append(entryWins, w)
		case "exts":
			verifrt.Assert(s.hasExt && eqBytes(w.b, p.extSeq), "extensions are decoded only from the crlExtensions sequence")
			sawExts = true
		}
	}
	verifrt.Assert(sawOuter, "algorithm identifier located after tbsCertList (signature algorithm window)")
	verifrt.Assert(sawInner, "inner algorithm window")
	verifrt.Assert(sawIssuer && issuerReturned, "issuer window decoded and that object returned")
	verifrt.Assert(len(entryWins) == s.k, "exactly the k entries are decoded")
	for i := 0; i < s.k && i < len(entryWins); i++ {
		verifrt.Assert(eqBytes(entryWins[i].b, p.file[p.entryOff[i]:p.entryOff[i]+p.entryLen[i]]), "entry window is exactly the i-th entry")
		verifrt.Assert(interface{}(proc.inserts[i].RevokedCertificate) == entryWins[i].obj, "i-th insert carries the i-th entry")
		verifrt.Assert(proc.inserts[i].Issuer == res.Issuer, "entry is filed under the CRL issuer")
		first := p.file[p.entryOff[i]+hdrLen(p.file[p.entryOff[i]:])]
		verifrt.Assert((len(proc.snaps[i].Extensions) > 0) == (first&1 == 1), "the consumer sees the entry extensions of THIS entry only (nothing carried over from an earlier entry)")
	}
	if s.hasExt {
		verifrt.Assert(sawExts, "extensions window")
		verifrt.Assert(res.CRLExtensions != nil, "extensions returned")
	} else {
		verifrt.Assert(res.CRLExtensions == nil, "no extensions invented")
	}
	// digest covers exactly tbsCertList
	verifrt.Assert(theHash.n == p.tbsLen, "digest length = tbsCertList")
	verifrt.Assert(eqBytes(theHash.log[:p.tbsLen], p.file[p.tbsOff:p.tbsOff+p.tbsLen]), "digest bytes = tbsCertList")
	// (C04c) the declared algorithm selects the matching digest and verification strategy
	wantHash := []crypto.Hash{crypto.SHA256, crypto.SHA256, crypto.SHA1, crypto.SHA512}[algIdx]
	wantKey := []x509.PublicKeyAlgorithm{x509.RSA, x509.ECDSA, x509.RSA, x509.ECDSA}[algIdx]
	verifrt.Assert(res.HashAndVerifyStrategy != nil && res.HashAndVerifyStrategy.HashStrategy == wantHash, "declared algorithm selects its hash")
	verifrt.Assert(res.HashAndVerifyStrategy.VerifyStrategy.GetAlgorithmID() == wantKey, "declared algorithm selects RSA or ECDSA verification")
	verifrt.Assert(eqBytes(res.CalculatedSignature, []byte{0xd1, 0x9e}), "reported digest is the digest of the hashed range")
	verifrt.Assert(eqBytes(res.Signature.Bytes, p.sigContent), "signature value")
	verifrt.Assert(res.Signature.BitLength == 8*len(p.sigContent), "signature bit length")
	verifrt.Reach("checked")
}
