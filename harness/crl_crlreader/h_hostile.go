package crlreader

import (
	"crypto/x509/pkix"

	"github.com/gr33nbl00d/caddy-revocation-validator/zz_verif/verifrt"
)

// header length of a TLV whose header bytes are concrete
func hl(b []byte) int {
	if b[1] < 0x80 {
		return 2
	}
	return 2 + int(b[1]&0x7f)
}

// headerPositions lists the offsets of all tag/length bytes of the skeleton's own structure.
func headerPositions(s shape, p *plan) []int {
	var pos []int
	addHdr := func(off int, b []byte) int {
		h := hl(b)
		for i := 0; i < h; i++ {
			pos = append(pos, off+i)
		}
		return h
	}
	f := p.file
	off := addHdr(0, f)              // outer SEQUENCE
	off += addHdr(off, f[off:])      // tbsCertList
	if s.hasVersion {
		pos = append(pos, off, off+1)
		off += 3
	}
	for i := 0; i < 3; i++ { // alg, issuer, thisUpdate
		h := addHdr(off, f[off:])
		off += h + tlvContentLen(f[off:], h)
	}
	if s.hasNext {
		h := addHdr(off, f[off:])
		off += h + tlvContentLen(f[off:], h)
	}
	if s.hasList {
		off += addHdr(off, f[off:])
		for i := 0; i < s.k; i++ {
			h := addHdr(off, f[off:])
			off += h + tlvContentLen(f[off:], h)
		}
	}
	if s.hasExt {
		off += addHdr(off, f[off:])
		h := addHdr(off, f[off:])
		off += h + tlvContentLen(f[off:], h)
	}
	h := addHdr(off, f[off:]) // signatureAlgorithm
	off += h + tlvContentLen(f[off:], h)
	addHdr(off, f[off:]) // signature BIT STRING
	return pos
}

func tlvContentLen(b []byte, h int) int {
	if h == 2 {
		return int(b[1])
	}
	n := 0
	for i := 2; i < h; i++ {
		n = n<<8 | int(b[i])
	}
	return n
}

// VerifC07_Hostile: every truncation of every skeleton, and every skeleton with one or two of its
// tag/length bytes replaced by arbitrary values: ReadCRL returns (result or error), never panics,
// never allocates beyond len(file)+80KiB+17, and terminates within the step budget.
func VerifC07_Hostile() {
	s := chooseShape()
	installModels(4096)
	fill = -1
	if verifrt.Param("symcontent", 0) == 0 {
		// element contents are one of four constant patterns (short-form length, SEQUENCE tag,
		// long-form length, 0xFF); the mutated header bytes stay fully symbolic
		fill = []int{0x00, 0x30, 0x81, 0xff}[verifrt.Choose(4)]
	}
	p := build(s)
	theHash.off = true
	algOID = oidTable[[]int{0, 4, 1, 5}[verifrt.Choose(verifrt.Param("algs", 2)*2)]] // supported and unsupported OIDs
	if s.hasExt {
		e0 := pkix.Extension{Id: oidCRLNum, Critical: verifrt.NondetBool("crit0"), Value: sym("extval0", 4)}
		extsModel = []pkix.Extension{e0}
	} else {
		extsModel = nil
	}
	n := len(p.file)
	mode := verifrt.Param("mode", 0)
	switch mode {
	case 0: // truncation at every point
		n = verifrt.Choose(len(p.file) + 1)
	case 1, 2:
		hp := headerPositions(s, p)
		i := verifrt.Choose(len(hp))
		p.file[hp[i]] = verifrt.NondetU8("mut0")
		if mode == 2 {
			j := verifrt.Choose(len(hp))
			if j <= i {
				return
			}
			p.file[hp[j]] = verifrt.NondetU8("mut1")
		}
	}
	if verifrt.Param("failing_unmarshal", 0) == 1 {
		unmarshalFails = verifrt.Choose(8) - 1
	}
	verifrt.AllocBudget(n + 81920 + 17)
	verifrt.StepBudget(verifrt.Param("steps", 3000000), true)
	path := verifrt.PutFile("crl.der", p.file, n)
	proc := &recProc{}
	res, err := StreamingCRLFileReader{}.ReadCRL(proc, path)
	if err != nil {
		verifrt.Reach("rejected")
		verifrt.Assert(res == nil, "error and result are exclusive")
	} else {
		verifrt.Reach("accepted")
		verifrt.Assert(res != nil && res.Signature != nil && res.Issuer != nil && res.HashAndVerifyStrategy != nil, "accepted CRL has a complete result")
	}
}
