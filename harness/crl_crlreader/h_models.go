package crlreader

import (
	"crypto"
	"crypto/x509/pkix"
	"encoding/asn1"
	"hash"
	"os"
	"time"

	"github.com/gr33nbl00d/caddy-revocation-validator/core"
	"github.com/gr33nbl00d/caddy-revocation-validator/zz_verif/verifrt"
)

// ---- environment models used by the crlreader harnesses (DESIGN.md 1.5) ----

// logHash: crypto.Hash.New() model - an append-only log of the bytes written.
type logHash struct {
	log []byte
	n   int
	off bool // content not recorded (totality harnesses)
}

func (h *logHash) Write(p []byte) (int, error) {
	if h.off {
		return len(p), nil
	}
	if h.n+len(p) <= len(h.log) {
		copy(h.log[h.n:], p)
	}
	h.n += len(p)
	return len(p), nil
}
func (h *logHash) Sum(b []byte) []byte { return []byte{0xd1, 0x9e} }
func (h *logHash) Reset()              { h.n = 0 }
func (h *logHash) Size() int           { return 2 }
func (h *logHash) BlockSize() int      { return 64 }

var theHash *logHash

// window handed to encoding/asn1.Unmarshal
type win struct {
	kind string
	b    []byte
	obj  interface{}
}

var (
	wins       []win
	algOID     asn1.ObjectIdentifier
	extsModel  []pkix.Extension
	unmarshalFails int // index of the Unmarshal call that fails (-1: none)
)

func modelUnmarshal(b []byte, val interface{}) (rest []byte, err error) {
	idx := len(wins)
	kind := "?"
	switch v := val.(type) {
	case *pkix.AlgorithmIdentifier:
		kind = "alg"
		v.Algorithm = algOID
	case *pkix.RDNSequence:
		kind = "rdn"
	case *pkix.RevokedCertificate:
		kind = "entry"
		// like encoding/asn1: an OPTIONAL field that is absent in the input is left untouched
		// (when present, the entry extension is a reasonCode whose value bytes are the - symbolic - content
		// bytes of the entry: keyCompromise, certificateHold, removeFromCRL ... every entry is handed over)
		if h := hdrLenSafe(b); h > 0 && b[h]&1 == 1 { // presence: low bit of the first content byte
			val := b
			if len(b) >= 3 {
				val = b[len(b)-3:]
			}
			v.Extensions = []pkix.Extension{{Id: oidReasonCode, Value: val}}
		}
	case *[]pkix.Extension:
		kind = "exts"
		*v = extsModel
	case *asn1.Enumerated:
		// DER ENUMERATED of one content octet (reason codes): decoded exactly, anything else is an error
		kind = "enum"
		if len(b) == 3 && b[0] == 0x0a && b[1] == 0x01 {
			*v = asn1.Enumerated(b[2])
		} else {
			wins = append(wins, win{kind, b, val})
			return nil, verifrt.NewError("asn1: structure error (ENUMERATED)")
		}
	case *int:
		kind = "int"
		if len(b) == 3 && (b[0] == 0x0a || b[0] == 0x02) && b[1] == 0x01 {
			*v = int(b[2])
		} else {
			wins = append(wins, win{kind, b, val})
			return nil, verifrt.NewError("asn1: structure error (INTEGER)")
		}
	}
	wins = append(wins, win{kind, b, val})
	if idx == unmarshalFails {
		return nil, verifrt.NewError("asn1: structure error")
	}
	return nil, nil
}

var fixedTime = time.Time{}

func installModels(logCap int) {
	verifrt.InstallFS()
	wins = nil
	unmarshalFails = -1
	theHash = &logHash{log: make([]byte, logCap)}
	verifrt.Override("github.com/gr33nbl00d/caddy-revocation-validator/core/pemreader.IsPemFile", func(f *os.File) (error, bool) { return nil, false })
	verifrt.Override("encoding/asn1.Unmarshal", modelUnmarshal)
	verifrt.Override("(crypto.Hash).New", func(h crypto.Hash) hash.Hash { theHash.n = 0; return theHash })
	verifrt.Override("github.com/gr33nbl00d/caddy-revocation-validator/core/asn1parser.ParseUTCTime", func(b []byte) (*time.Time, error) {
		t := fixedTime
		return &t, nil
	})
}

// recording consumer
type recProc struct {
	events  []string
	meta    *CRLMetaInfo
	inserts []*CRLEntry
	snaps   []pkix.RevokedCertificate // what the consumer saw at the time of the call (it persists at once)
	ext     *ExtendedCRLMetaInfo
}

func (p *recProc) StartUpdateCrl(m *CRLMetaInfo) error {
	p.events = append(p.events, "start")
	p.meta = m
	return nil
}
func (p *recProc) InsertRevokedCertificate(e *CRLEntry) error {
	p.events = append(p.events, "insert")
	p.inserts = append(p.inserts, e)
	p.snaps = append(p.snaps, *e.RevokedCertificate)
	return nil
}
func (p *recProc) UpdateExtendedMetaInfo(i *ExtendedCRLMetaInfo) error {
	p.events = append(p.events, "ext")
	p.ext = i
	return nil
}

func (p *recProc) UpdateSignatureCertificate(e *core.CertificateChainEntry) error {
	p.events = append(p.events, "sigcert")
	return nil
}

// ---- DER skeleton builder: concrete structure, symbolic content ----

// hdr encodes tag+length; class 0 = shortest form, 1 = 0x81 form, 2 = 0x82 form (the reader accepts all).
func hdr(tag byte, n int, class int) []byte {
	if class == 0 && n < 128 {
		return []byte{tag, byte(n)}
	}
	if (class <= 1) && n < 256 {
		return []byte{tag, 0x81, byte(n)}
	}
	if n < 65536 {
		return []byte{tag, 0x82, byte(n >> 8), byte(n)}
	}
	return []byte{tag, 0x83, byte(n >> 16), byte(n >> 8), byte(n)}
}

func wrap(tag byte, class int, parts ...[]byte) []byte {
	n := 0
	for _, p := range parts {
		n += len(p)
	}
	out := hdr(tag, n, class)
	for _, p := range parts {
		out = append(out, p...)
	}
	return out
}

func cat(parts ...[]byte) []byte {
	var out []byte
	for _, p := range parts {
		out = append(out, p...)
	}
	return out
}

// fill < 0: content bytes are symbolic; otherwise every content byte is the given constant
var fill = -1

func sym(label string, n int) []byte {
	if fill >= 0 {
		b := make([]byte, n)
		for i := range b {
			b[i] = byte(fill)
		}
		return b
	}
	return verifrt.NondetBytes(label, n)
}

// hdrLen: header length of a TLV whose header bytes are concrete (2, 3 or 4)
func hdrLen(b []byte) int {
	if b[1] < 0x80 {
		return 2
	}
	return 2 + int(b[1]&0x7f)
}

// hdrLenSafe: header length if the buffer holds a header and at least one content byte, else 0 (hostile input)
func hdrLenSafe(b []byte) int {
	if len(b) < 3 {
		return 0
	}
	h := 2
	if b[1] >= 0x80 {
		h = 2 + int(b[1]&0x7f)
	}
	if h >= len(b) {
		return 0
	}
	return h
}

func eqBytes(a, b []byte) bool { return verifrt.BytesEqual(a, b) }

var oidTable = []asn1.ObjectIdentifier{
	{1, 2, 840, 113549, 1, 1, 11}, // sha256WithRSA
	{1, 2, 840, 10045, 4, 3, 2},   // ECDSAWithSHA256
	{1, 2, 840, 113549, 1, 1, 5},  // sha1WithRSA
	{1, 2, 840, 10045, 4, 3, 4},   // ECDSAWithSHA512
	{1, 2, 840, 113549, 1, 1, 10}, // RSASSA-PSS (unsupported)
	{1, 3, 101, 112},              // Ed25519 (unsupported)
}

var (
	oidAKI    = asn1.ObjectIdentifier{2, 5, 29, 35}
	oidCRLNum = asn1.ObjectIdentifier{2, 5, 29, 20}
	oidDelta  = asn1.ObjectIdentifier{2, 5, 29, 27}
	oidIDP    = asn1.ObjectIdentifier{2, 5, 29, 28}
	oidReasonCode = asn1.ObjectIdentifier{2, 5, 29, 21}
)
