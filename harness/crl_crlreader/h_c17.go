package crlreader

import (
	"encoding/pem"
	"crypto/x509/pkix"

	"github.com/gr33nbl00d/caddy-revocation-validator/core"
	"github.com/gr33nbl00d/caddy-revocation-validator/zz_verif/verifrt"
)

// liveProc: a consumer that, like the disk store, keeps nothing of an entry; it samples the size of
// the reachable heap at the moment each entry is handed over (fixed-size log: no growth of its own).
type liveProc struct {
	live [8]int
	n    int
}

func (p *liveProc) StartUpdateCrl(m *CRLMetaInfo) error { return nil }
func (p *liveProc) InsertRevokedCertificate(e *CRLEntry) error {
	if p.n < len(p.live) {
		p.live[p.n] = verifrt.LiveBytes()
	}
	p.n++
	return nil
}
func (p *liveProc) UpdateExtendedMetaInfo(i *ExtendedCRLMetaInfo) error            { return nil }
func (p *liveProc) UpdateSignatureCertificate(e *core.CertificateChainEntry) error { return nil }

// decoder model for the memory harness: like encoding/asn1 it allocates per call in proportion to
// the element it decodes, and keeps nothing itself
func leanUnmarshal(b []byte, val interface{}) (rest []byte, err error) {
	switch v := val.(type) {
	case *pkix.AlgorithmIdentifier:
		v.Algorithm = algOID
	case *pkix.RevokedCertificate:
		v.Extensions = []pkix.Extension{{Id: oidIDP, Value: append([]byte(nil), b...)}}
	case *[]pkix.Extension:
		*v = extsModel
	}
	return nil, nil
}

// VerifC17_Reader (inductive kernel of the memory bound): for every CRL skeleton with k entries of
// one size, the heap reachable when entry i is handed to the consumer has the same size for
// i = 2,3,...,k - nothing of an earlier entry is retained anywhere (reader, buffers, result under
// construction, package state) - and no single allocation comes near the size of a large document.
func VerifC17_Reader() {
	s := chooseShape()
	installModels(16)
	theHash.off = true
	verifrt.Override("encoding/asn1.Unmarshal", leanUnmarshal)
	fill = verifrt.Param("fill", -1)
	p := build(s)
	algOID = oidTable[0]
	if s.hasExt {
		extsModel = []pkix.Extension{{Id: oidAKI, Value: sym("extval0", 4)}}
	} else {
		extsModel = nil
	}
	verifrt.AllocBudget(512 * 1024) // generous: what is checked is growth, see VerifC17_BigFiles
	path := verifrt.PutFile("crl.der", p.file, len(p.file))
	proc := &liveProc{}
	res, err := StreamingCRLFileReader{}.ReadCRL(proc, path)
	if err != nil || res == nil {
		// not a well-formed CRL of the supported profile (symbolic version byte etc.)
		verifrt.Reach("rejected")
		return
	}
	verifrt.Assert(proc.n == s.k, "every entry handed over exactly once")
	for i := 2; i < s.k && i < len(proc.live); i++ {
		verifrt.Assert(proc.live[i] == proc.live[i-1], "reachable heap does not grow from one entry to the next")
	}
	verifrt.Reach("memory-checked")
}

// VerifC17_BigFiles: two well-formed CRLs with 3 and with 6 entries of 60 000 bytes each (180 KB and
// 360 KB): the largest single buffer the reader allocates is the same for both - whatever constant buffer sizes the implementation chooses, none of them follows the size of
// the document or of the list (no whole-file read, no read-ahead sized from a length field).
func VerifC17_BigFiles() {
	fill = 0
	// pem=1: the same two documents in PEM armour (64-column base64 lines), through the real PEM detection,
	// the real PemReader and the real streaming base64 decoder of the standard library
	asPEM := verifrt.Param("pem", 0) == 1
	entryLen := verifrt.Param("entrylen", 60000)
	measure := func(k int) (int, int) {
		installModels(16)
		theHash.off = true
		verifrt.Override("encoding/asn1.Unmarshal", leanUnmarshal)
		// the real PEM detection runs on the big documents as well (it must not read more than a first line's worth)
		verifrt.ClearOverride("github.com/gr33nbl00d/caddy-revocation-validator/core/pemreader.IsPemFile")
		algOID = oidTable[0]
		extsModel = []pkix.Extension{{Id: oidAKI, Value: []byte{1, 2, 3, 4}}}
		s := shape{hasVersion: true, hasNext: true, hasList: true, hasExt: true, k: k, cls: 2, entryLen: entryLen}
		p := build(s)
		p.file[p.tbsOff+hdrLen(p.file[p.tbsOff:])+2] = 1 // version v2
		doc := p.file
		if asPEM {
			doc = pem.EncodeToMemory(&pem.Block{Type: "X509 CRL", Bytes: p.file})
		}
		path := verifrt.PutFile("crl.der", doc, len(doc))
		proc := &liveProc{}
		verifrt.MaxAlloc(true)
		res, err := StreamingCRLFileReader{}.ReadCRL(proc, path)
		verifrt.Assert(err == nil && res != nil && proc.n == k, "harness: the big CRL is read completely")
		return verifrt.MaxAlloc(false), len(doc)
	}
	m3, n3 := measure(3)
	m6, n6 := measure(6)
	verifrt.Assert(n6 > n3+2*entryLen, "harness: the second document is much larger")
	verifrt.Assert(m3 == m6, "the largest buffer does not depend on the number of entries / the size of the document")
	verifrt.Reach("bigfiles-checked")
}

// failProc: a consumer (the staging store) that fails at its f-th call
type failProc struct {
	calls, failAt, after int
}

func (p *failProc) step() error {
	i := p.calls
	p.calls++
	if i == p.failAt {
		return verifrt.NewError("store: injected write failure")
	}
	if i > p.failAt {
		p.after++
	}
	return nil
}
func (p *failProc) StartUpdateCrl(m *CRLMetaInfo) error                            { return p.step() }
func (p *failProc) InsertRevokedCertificate(e *CRLEntry) error                     { return p.step() }
func (p *failProc) UpdateExtendedMetaInfo(i *ExtendedCRLMetaInfo) error            { return p.step() }
func (p *failProc) UpdateSignatureCertificate(e *core.CertificateChainEntry) error { return nil }

// VerifC08_ReaderPropagates: whichever call of the consumer fails (start, the i-th entry, the
// extended meta information) while a well-formed CRL is streamed into the staging store, ReadCRL
// reports an error and no result, and hands nothing more to the consumer - a partially staged list
// is never reported as read (the repository then keeps the previous list: C08).
func VerifC08_ReaderPropagates() {
	s := chooseShape()
	installModels(16)
	theHash.off = true
	verifrt.Override("encoding/asn1.Unmarshal", leanUnmarshal)
	fill = -1
	p := build(s)
	algOID = oidTable[0]
	if s.hasExt {
		extsModel = []pkix.Extension{{Id: oidAKI, Value: sym("extval0", 4)}}
	} else {
		extsModel = nil
	}
	verifrt.Assume(!s.hasVersion || p.versionByte == 1)
	if s.hasExt && !s.hasVersion {
		return
	}
	path := verifrt.PutFile("crl.der", p.file, len(p.file))
	proc := &failProc{failAt: verifrt.Choose(s.k + 2)}
	res, err := StreamingCRLFileReader{}.ReadCRL(proc, path)
	verifrt.Assert(proc.calls > proc.failAt, "harness: the failing call is reached")
	verifrt.Assert(err != nil, "a failing consumer call makes ReadCRL fail")
	verifrt.Assert(res == nil, "no result for a partially consumed CRL")
	verifrt.Assert(proc.after == 0, "nothing is handed to the consumer after its failure")
	verifrt.Reach("consumer-failure-propagated")
}
