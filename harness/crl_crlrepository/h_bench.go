package crlrepository

import (
	"go.uber.org/zap"
	"encoding/asn1"
	"crypto/x509"
	"crypto/x509/pkix"
	"hash"
	"math/big"
	"net/url"

	"github.com/gr33nbl00d/caddy-revocation-validator/config"
	"github.com/gr33nbl00d/caddy-revocation-validator/core"
	"github.com/gr33nbl00d/caddy-revocation-validator/crl/crlloader"
	"github.com/gr33nbl00d/caddy-revocation-validator/crl/crlreader"
	"github.com/gr33nbl00d/caddy-revocation-validator/crl/crlstore"
	"github.com/gr33nbl00d/caddy-revocation-validator/zz_verif/verifrt"
)

var oidReasonCode = asn1.ObjectIdentifier{2, 5, 29, 21}

const modRoot = "github.com/gr33nbl00d/caddy-revocation-validator"

// ---- the modelled world: CRL servers, published lists, verification verdicts ----

type modelCRL struct {
	name          string
	issuer        string
	serials       []*big.Int
	readFailAfter int  // -1: parses; j: the reader fails after j entries were handed over
	rejectAtEnd   bool // reader fails after all entries (e.g. unhandled critical extension)
	sigOK         bool // signature verifies under an entitled signer
	needsChain    bool // ... but only if the caller supplies at least one certificate chain
	needsIssuerCA bool // ... but only if a presented chain (end-entity + CA) is supplied, the stored signer alone does not do
	signedBy      int  // >= 0: the list verifies exactly under the key with this number (the certificate offered must carry it); -1: any offered certificate does
}

type server struct {
	up  bool
	crl *modelCRL
}

var (
	servers     map[string]*server   // by URL / file name
	downloaded  map[string]*modelCRL // temp file -> content
	results     map[*crlreader.CRLReadResult]*modelCRL
	certIssuer  map[*x509.Certificate]string
	certKey     map[*x509.Certificate]int // CA certificates and the key they carry (keyed verification)
	links       map[string]string         // symbolic links in the file system (path -> current target)
	loadCalls   int
	verifyCalls int
	readCalls   int
)

func newCRL(name, issuer string, serials ...*big.Int) *modelCRL {
	return &modelCRL{name: name, issuer: issuer, serials: serials, readFailAfter: -1, sigOK: true, signedBy: -1}
}

// stub reader: hands the model CRL to the consumer exactly like the streaming reader does
// (StartUpdateCrl, entries in order, UpdateExtendedMetaInfo)
type stubReader struct{}

func (stubReader) ReadCRL(p crlreader.CRLProcessor, path string) (*crlreader.CRLReadResult, error) {
	readCalls++
	c := downloaded[path]
	if c == nil {
		return nil, verifrt.NewError("garbage: not a CRL")
	}
	issuer := crlstore.VerifRdn(c.issuer)
	if err := p.StartUpdateCrl(&crlreader.CRLMetaInfo{Issuer: *issuer}); err != nil {
		return nil, err
	}
	for i, s := range c.serials {
		if i == c.readFailAfter {
			return nil, verifrt.NewError("truncated CRL")
		}
		// the entry's revocation date is arbitrary (past, now, in the future of the server clock)
		// ... and so is its reasonCode entry extension (keyCompromise, certificateHold, removeFromCRL, garbage ...):
		// in a complete CRL a listed serial is revoked whatever the entry says besides
		e := &crlreader.CRLEntry{Issuer: issuer, RevokedCertificate: &pkix.RevokedCertificate{SerialNumber: s, RevocationTime: verifrt.TimeAt(verifrt.NondetInt64("revocationDate")),
			Extensions: []pkix.Extension{{Id: oidReasonCode, Value: verifrt.NondetBytes("reasonCode", 3)}}}}
		if err := p.InsertRevokedCertificate(e); err != nil {
			return nil, err
		}
	}
	if c.readFailAfter == len(c.serials) {
		return nil, verifrt.NewError("truncated CRL")
	}
	if err := p.UpdateExtendedMetaInfo(&crlreader.ExtendedCRLMetaInfo{}); err != nil {
		return nil, err
	}
	if c.rejectAtEnd {
		return nil, verifrt.NewError("unhandled critical extension")
	}
	r := &crlreader.CRLReadResult{Issuer: issuer}
	results[r] = c
	return r, nil
}

var signer *core.CertificateChainEntry

func modelVerify(result *crlreader.CRLReadResult, chains *core.CertificateChains) (*core.CertificateChainEntry, error) {
	verifyCalls++
	// like the real verifyCRLSignature -> FindCertificateIssuerCandidates, which walks chains.CertificateChainList
	// without a nil check: a nil chains pointer is a crash, not a verification failure
	_ = len(chains.CertificateChainList)
	c := results[result]
	if c == nil || !c.sigOK {
		return nil, verifrt.NewError("can not verify CRL signature")
	}
	if c.signedBy >= 0 {
		// keyed verification: the signer is the first offered certificate (presented chain CA, trusted signer
		// or remembered signer) that carries the key the list was signed with
		for i := range chains.CertificateChainList {
			es := chains.CertificateChainList[i].CertificateChainEntryList
			for j := range es {
				if k, ok := certKey[es[j].Certificate]; ok && k == c.signedBy {
					return &es[j], nil
				}
			}
		}
		return nil, verifrt.NewError("can not find CRL issuer certificate")
	}
	if c.needsChain && (chains == nil || len(chains.CertificateChainList) == 0) {
		return nil, verifrt.NewError("can not find CRL issuer certificate")
	}
	if c.needsIssuerCA {
		found := false
		if chains != nil {
			for _, ch := range chains.CertificateChainList {
				if len(ch.CertificateChainEntryList) >= 2 {
					found = true
				}
			}
		}
		if !found {
			return nil, verifrt.NewError("can not find CRL issuer certificate")
		}
	}
	return signer, nil
}

func modelDownload(l *crlloader.URLLoader, filePath string) error {
	loadCalls++
	verifrt.Yield() // a download takes long: other operations run meanwhile (whatever locks the caller holds)
	s := servers[l.UrlString]
	if s == nil || !s.up {
		return verifrt.NewError("connection refused")
	}
	downloaded[filePath] = s.crl // nil crl = garbage body
	return nil
}

func modelCopyFile(l *crlloader.FileLoader, filePath string) error {
	loadCalls++
	name := l.FileName
	if t, ok := links[name]; ok {
		name = t // opening a symbolic link opens what it points to NOW
	}
	s := servers[name]
	if s == nil || !s.up {
		return verifrt.NewError("no such file")
	}
	downloaded[filePath] = s.crl
	return nil
}

// regDigest: collision-free stand-in for SHA-256 over the (concrete) location strings of a harness:
// the digest of the k-th distinct input is (k, 0, 0, ...). Deterministic for the whole path, restarts included.
var digestOf map[string]byte

type regDigest struct{ in string }

func (d *regDigest) Write(p []byte) (int, error) { d.in += string(p); return len(p), nil }
func (d *regDigest) Sum(b []byte) []byte {
	k, ok := digestOf[d.in]
	if !ok {
		k = byte(len(digestOf) + 1)
		digestOf[d.in] = k
	}
	out := make([]byte, 32)
	out[0] = k
	return append(b, out...)
}
func (d *regDigest) Reset()         { d.in = "" }
func (d *regDigest) Size() int      { return 32 }
func (d *regDigest) BlockSize() int { return 64 }

// idOfCDP: the store identifier the real loader code computes for a distribution-point set
func idOfCDP(urls ...string) string {
	l, err := crlloader.DefaultCRLLoaderFactory{}.CreatePreferredCrlLoader(&core.CRLLocations{CRLDistributionPoints: urls}, nil)
	if err != nil {
		return ""
	}
	id, _ := l.GetCRLLocationIdentifier()
	return id
}

type world struct {
	repo *Repository
	cfg  *config.CRLConfig
	disk bool
}

func installWorld() {
	crlstore.VerifInstallStoreModels()
	verifrt.InstallTempFiles()
	verifrt.InstallSyncMap()
	servers = map[string]*server{}
	downloaded = map[string]*modelCRL{}
	results = map[*crlreader.CRLReadResult]*modelCRL{}
	certIssuer = map[*x509.Certificate]string{}
	certKey = map[*x509.Certificate]int{}
	links = map[string]string{}
	verifrt.OverrideIfPresent("path/filepath.EvalSymlinks", func(p string) (string, error) {
		if t, ok := links[p]; ok {
			return t, nil
		}
		return p, nil
	})
	loadCalls, verifyCalls, readCalls = 0, 0, 0
	sc := &x509.Certificate{}
	signer = &core.CertificateChainEntry{RawCertificate: crlstore.VerifReg(sc), Certificate: sc}
	verifrt.Override("(*"+modRoot+"/crl/crlloader.URLLoader).LoadCRL", modelDownload)
	verifrt.Override("(*"+modRoot+"/crl/crlloader.FileLoader).LoadCRL", modelCopyFile)
	// library models only (no internal function of the loader package is replaced):
	// SHA-256 = an injective registry digest, url.Parse/String = identity
	digestOf = map[string]byte{}
	verifrt.Override("crypto/sha256.New", func() hash.Hash { return &regDigest{} })
	verifrt.Override("net/url.Parse", func(raw string) (*url.URL, error) { return &url.URL{Path: raw}, nil })
	verifrt.Override("(*net/url.URL).String", func(u *url.URL) string { return u.Path })
	// encoding/asn1.Marshal (reflection based, not executed): the canonical encoding Go would produce for a
	// name is a function of the name - and need not be the encoding the CA used in the certificate
	verifrt.Override("encoding/asn1.Marshal", func(val interface{}) ([]byte, error) {
		if n, ok := val.(pkix.RDNSequence); ok {
			return verifrt.UFBytes64("asn1.Marshal", n.String()), nil
		}
		return verifrt.NondetBytes("asn1.Marshal", 8), nil
	})
	verifrt.Override(modRoot+"/crl/crlrepository.verifyCRLSignature", modelVerify)
	verifrt.Override(modRoot+"/core/asn1parser.ParseIssuerRDNSequence", func(c *x509.Certificate) (*pkix.RDNSequence, error) {
		return crlstore.VerifRdn(certIssuer[c]), nil
	})
}

// newWorld builds a repository with the REAL stores, loader factory and multi-scheme loader;
// only the download, the reader, the signature verdict and the serializer are models.
func newWorld(disk bool, fetch config.CRLFetchMode, strict bool, sigMode config.SignatureValidationMode) *world {
	cfg := &config.CRLConfig{WorkDir: "/work", CDPConfig: &config.CDPConfig{CRLFetchModeParsed: fetch, CRLCDPStrict: strict}, SignatureValidationModeParsed: sigMode}
	w := &world{cfg: cfg, disk: disk}
	w.repo = w.newRepo()
	return w
}

func (w *world) newRepo() *Repository {
	// the repository is built by its REAL constructor (whatever it initialises stays initialised); only the
	// two environment-facing parts are then exchanged: the serializer inside the store factory (encoding/asn1
	// is reflection based) and the CRL reader (the streaming reader has its own harnesses)
	st := crlstore.Map
	if w.disk {
		st = crlstore.LevelDB
	}
	err, r := NewCRLRepository(zap.NewNop(), w.cfg, st)
	verifrt.Assume(err == nil)
	switch f := r.Factory.(type) {
	case crlstore.LevelDbStoreFactory:
		f.Serializer = crlstore.VerifSerializer{}
		r.Factory = f
	case crlstore.MapStoreFactory:
		f.Serializer = crlstore.VerifSerializer{}
		r.Factory = f
	default:
		verifrt.Assert(false, "harness: unknown store factory type")
	}
	r.crlReader = stubReader{}
	return r
}

func cert(issuer string, serial *big.Int, cdp ...string) *x509.Certificate {
	// RawIssuer is SOME DER encoding of the issuer name (string types and lengths are the CA's choice): arbitrary
	// bytes; the name they decode to is certIssuer[c] (ParseIssuerRDNSequence model)
	c := &x509.Certificate{SerialNumber: serial, CRLDistributionPoints: cdp, RawIssuer: verifrt.NondetBytes("rawIssuer", 8)}
	certIssuer[c] = issuer
	return c
}

func chainsOf(c *x509.Certificate) *core.CertificateChains {
	return core.NewCertificateChains([][]*x509.Certificate{{c, {}}}, nil)
}

// chainsOfKey: a presented chain [c, CA] whose CA certificate carries key number k
func chainsOfKey(c *x509.Certificate, k int) *core.CertificateChains {
	ca := &x509.Certificate{}
	ca.Raw = crlstore.VerifReg(ca)
	certKey[ca] = k
	return core.NewCertificateChains([][]*x509.Certificate{{c, ca}}, nil)
}

func sym(label string) *big.Int { return big.NewInt(verifrt.NondetInt64(label)) }

func listed(c *modelCRL, issuer string, s *big.Int) bool {
	if c == nil || c.issuer != issuer {
		return false
	}
	for _, x := range c.serials {
		if x.Cmp(s) == 0 {
			return true
		}
	}
	return false
}

// handshake = what CRLRevocationChecker.IsRevoked does for a certificate with distribution points
// (AddCRL, spawn of the background refresh is the caller's business, then IsRevoked)
func (w *world) handshake(c *x509.Certificate) (*core.RevocationStatus, error) {
	var loc *core.CRLLocations
	if len(c.CRLDistributionPoints) > 0 {
		loc = &core.CRLLocations{CRLDistributionPoints: c.CRLDistributionPoints}
		_, _ = w.repo.AddCRL(loc, chainsOf(c))
	}
	return w.repo.IsRevoked(c, loc)
}

func (w *world) entryFor(url string) *Entry {
	return w.repo.crlRepository[idOfCDP(url)]
}
