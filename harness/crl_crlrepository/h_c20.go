package crlrepository

import (
	"github.com/gr33nbl00d/caddy-revocation-validator/config"
	"github.com/gr33nbl00d/caddy-revocation-validator/core"
	"github.com/gr33nbl00d/caddy-revocation-validator/zz_verif/verifrt"
)

// VerifC20_Residue: after every load or refresh outcome (server down, garbage, truncated, rejected
// at the end, bad signature, accepted) and after every single injected storage fault that is not a
// failure of the clean-up itself: no temporary artefact remains under work_dir, and a live store
// that existed before still exists.
func VerifC20_Residue() {
	installWorld()
	w := newWorld(true, config.CRLFetchModeActively, false, config.SignatureValidationModeVerify)
	s1, s2 := sym("s1"), sym("s2")
	loc := &core.CRLLocations{CRLDistributionPoints: []string{url1}}
	refresh := verifrt.Choose(2) == 1
	if refresh {
		servers[url1] = &server{up: true, crl: newCRL("OLD", "CN=I1", s1)}
		_, err := w.repo.AddCRL(loc, chainsOf(cert("CN=I1", s1)))
		verifrt.Assert(err == nil, "first load")
		verifrt.Assert(verifrt.TempResidue("/work") == 0, "no temporary artefact after a successful first load")
	}
	nw := newCRL("NEW", "CN=I1", s2)
	srv := &server{up: true, crl: nw}
	servers[url1] = srv
	switch verifrt.Choose(7) {
	case 1:
		srv.up = false
	case 2:
		srv.crl = nil
	case 3:
		nw.readFailAfter = verifrt.Choose(2)
	case 4:
		nw.rejectAtEnd = true
	case 5:
		nw.sigOK = false
	case 6:
		verifrt.FaultBudget = 1
	}
	if refresh {
		_ = w.repo.updateCRL(idOfCDP(url1))
	} else {
		_, _ = w.repo.AddCRL(loc, chainsOf(cert("CN=I1", s1)))
	}
	verifrt.FaultBudget = 0
	cleanupFailed := false
	for _, f := range verifrt.FaultLog {
		if len(f) > 6 && f[:6] == "remove" {
			cleanupFailed = true // the environment refused to delete: nothing the code can do
		}
	}
	if cleanupFailed {
		verifrt.Reach("cleanup-refused")
		return
	}
	verifrt.Reach("checked")
	verifrt.Assert(verifrt.TempResidue("/work") == 0, "no temporary artefact remains after a load or refresh, successful or not")
	for _, p := range verifrt.Children("/work") {
		verifrt.Assert(p == "/work/"+idOfCDP(url1), "the work_dir holds nothing but the live store after a load or refresh")
	}
	if refresh {
		d := verifrt.Disk["/work/"+idOfCDP(url1)]
		verifrt.Assert(d != nil && d.Exists, "the live store has not been deleted")
	}
}

// VerifC20_Sweep: the start-up sweep removes exactly the direct children of work_dir whose name
// matches ^crl_.*_tmp$ and nothing else (live stores, foreign files, nested directories).
func VerifC20_Sweep() {
	installWorld()
	verifrt.InstallDirListing()
	w := newWorld(true, config.CRLFetchModeActively, false, config.SignatureValidationModeVerify)
	// the work_dir itself may be named like a temporary artefact: it is never an artefact of its own sweep
	B := []string{"/work", "/data/crl_cache_tmp", "/data/crl[site-a]"}[verifrt.Choose(3)] // ... or contain a glob metacharacter
	w.cfg.WorkDir = B
	verifrt.Disk[B] = &verifrt.Dir{Exists: true}
	mk := func(p string, file bool) { verifrt.Disk[p] = &verifrt.Dir{Exists: true, IsFile: file} }
	mk(B+"/0123456789abcdef0123456789abcdef0123456789abcdef0123456789abcdef", false)
	mk(B+"/crl_1b4e28ba-2fa1-11d2-883f-0016d3cca427_tmp", false)
	verifrt.Disk[B+"/crl_1b4e28ba-2fa1-11d2-883f-0016d3cca427_tmp"].HasFiles = true // a moved-aside database
	mk(B+"/crl_7d444840-9dc0-11d1-b245-5ffdce74fad2_tmp", false)
	verifrt.Disk[B+"/crl_7d444840-9dc0-11d1-b245-5ffdce74fad2_tmp"].HasFiles = true // a staging database
	mk(B+"/crl_12345_tmp", true)
	mk(B+"/crl_tmp", true)
	mk(B+"/crl_x_tmp.bak", true)
	mk(B+"/mycrl_a_tmp", true)
	mk(B+"/notes.txt", true)
	mk(B+"/sub", false)
	mk(B+"/sub/crl_nested_tmp", true)
	verifrt.MapOrders(true) // the directory is listed in any order
	w.repo.DeleteTempFilesIfExist()
	verifrt.MapOrders(false)
	ex := func(p string) bool { d := verifrt.Disk[p]; return d != nil && d.Exists }
	verifrt.Assert(!ex(B+"/crl_1b4e28ba-2fa1-11d2-883f-0016d3cca427_tmp") && !ex(B+"/crl_7d444840-9dc0-11d1-b245-5ffdce74fad2_tmp") && !ex(B+"/crl_12345_tmp"), "all temporary artefacts are removed at startup (databases and files)")
	verifrt.Assert(ex(B+"/0123456789abcdef0123456789abcdef0123456789abcdef0123456789abcdef"), "a live store is never swept")
	verifrt.Assert(ex(B+"/crl_tmp") && ex(B+"/crl_x_tmp.bak") && ex(B+"/mycrl_a_tmp") && ex(B+"/notes.txt"), "foreign files with similar names are left alone")
	verifrt.Assert(ex(B+"/sub") && ex(B+"/sub/crl_nested_tmp"), "nothing below a sub-directory is touched")
	verifrt.Assert(ex(B), "the work_dir itself survives its start-up sweep, whatever its name")
	verifrt.Reach("swept")
}
