package crlrepository

import (
	"math/big"

	"github.com/gr33nbl00d/caddy-revocation-validator/config"
	"github.com/gr33nbl00d/caddy-revocation-validator/core"
	"github.com/gr33nbl00d/caddy-revocation-validator/zz_verif/verifrt"
)

// VerifC11_Histories: histories of up to H intake events on one location
//   {load/refresh accepted, rejected: bad signature | truncated after j entries | rejected at the end | server down}
// Probes after every event: a serial listed by the list in force, one delisted by it, one never listed
// anywhere, the listed serial under another issuer. A probe that is not listed in the list currently
// in force is never reported revoked; entries of rejected lists never influence a verdict.
func VerifC11_Histories() {
	installWorld()
	verifrt.InstallDirListing()
	disk := verifrt.Param("disk", 0) == 1
	w := newWorld(disk, config.CRLFetchModeActively, false, config.SignatureValidationModeVerify)
	pool := []*big.Int{sym("a"), sym("b"), sym("c")}
	never := sym("never")
	for _, p := range pool {
		verifrt.Assume(p.Cmp(never) != 0)
	}
	verifrt.Assume(pool[0].Cmp(pool[1]) != 0)
	verifrt.Assume(pool[0].Cmp(pool[2]) != 0)
	verifrt.Assume(pool[1].Cmp(pool[2]) != 0)
	loc := &core.CRLLocations{CRLDistributionPoints: []string{url1}}
	var inForce *modelCRL
	H := verifrt.Param("H", 2)
	n := 1 + verifrt.Choose(H)
	for ev := 0; ev < n; ev++ {
		// the published list: a non-empty subset of the pool, chosen freely
		var subset int
		if verifrt.Param("fewsubsets", 0) == 1 {
			subset = []int{1, 3, 6}[verifrt.Choose(3)]
		} else {
			subset = 1 + verifrt.Choose(6)
		}
		var serials []*big.Int
		for i := 0; i < 3; i++ {
			if subset&(1<<uint(i)) != 0 {
				serials = append(serials, pool[i])
			}
		}
		pub := newCRL("PUB", "CN=I1", serials...)
		kind := verifrt.Choose(5)
		srv := &server{up: true, crl: pub}
		switch kind {
		case 0: // acceptable
		case 1:
			pub.sigOK = false
		case 2:
			pub.readFailAfter = verifrt.Choose(len(serials) + 1)
		case 3:
			pub.rejectAtEnd = true
		case 4:
			srv.up = false
		}
		servers[url1] = srv
		if ev == 0 || w.entryFor(url1) == nil || !w.entryFor(url1).Loaded {
			_, err := w.repo.AddCRL(loc, chainsOf(cert("CN=I1", never)))
			if err == nil {
				verifrt.Assert(kind == 0, "only an acceptable list is taken in by a first load")
				inForce = pub
			}
		} else {
			err := w.repo.updateCRL(idOfCDP(url1))
			if err == nil {
				verifrt.Assert(kind == 0, "only an acceptable list is taken in by a refresh")
				inForce = pub
			}
		}
		if kind == 0 {
			verifrt.Reach("accepted")
		} else {
			verifrt.Reach("rejected")
		}
		for _, p := range []*big.Int{pool[0], pool[1], pool[2], never} {
			st, err := w.repo.IsRevoked(cert("CN=I1", p), nil)
			verifrt.Assert(err == nil, "lookup works")
			if err == nil {
				verifrt.Assert(st.Revoked == listed(inForce, "CN=I1", p), "revoked exactly if listed by the list in force")
			}
			// same serial, other issuer
			st2, err2 := w.repo.IsRevoked(cert("CN=I12", p), nil)
			verifrt.Assert(err2 == nil && !st2.Revoked, "entries of one issuer never affect another issuer's certificates")
		}
	}
}
