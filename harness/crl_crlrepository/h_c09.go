package crlrepository

import (
	"math/big"
	"path/filepath"

	"github.com/gr33nbl00d/caddy-revocation-validator/config"
	"github.com/gr33nbl00d/caddy-revocation-validator/core"
	"github.com/gr33nbl00d/caddy-revocation-validator/zz_verif/verifrt"
)

// VerifC09_Propagation: a store failure during lookup surfaces as an error of Repository.IsRevoked
// (=> CRLRevocationChecker.IsRevoked => VerifyClientCertificate denies), for listed and unlisted
// certificates; it is never turned into 'not revoked'.
func VerifC09_Propagation() {
	installWorld()
	w := newWorld(true, config.CRLFetchModeActively, verifrt.Choose(2) == 1, config.SignatureValidationModeVerify)
	s := sym("listed")
	servers[url1] = &server{up: true, crl: newCRL("L", "CN=I1", s)}
	c0 := cert("CN=I1", s, url1)
	loc := &core.CRLLocations{CRLDistributionPoints: []string{url1}}
	_, err := w.repo.AddCRL(loc, chainsOf(c0))
	verifrt.Assert(err == nil, "load ok")
	// optionally a second, healthy list of the same issuer that does not list the probe is in force as
	// well; the repository map is then walked in either order (the faulty store first or last)
	var other *big.Int
	if verifrt.Choose(2) == 1 {
		const urlB = "http://b/crl"
		other = sym("other")
		servers[urlB] = &server{up: true, crl: newCRL("B", "CN=I1", other)}
		_, err = w.repo.AddCRL(&core.CRLLocations{CRLDistributionPoints: []string{urlB}}, chainsOf(cert("CN=I1", sym("x"), urlB)))
		verifrt.Assert(err == nil, "second list loaded")
		verifrt.MapOrders(true)
		verifrt.Reach("two-lists")
	}
	probe := sym("probe")
	if other != nil {
		verifrt.Assume(probe.Cmp(other) != 0) // the second list does not list the probe
	}
	fault := verifrt.Choose(4)
	switch fault {
	case 3: // a refresh whose store swap fails (up to two injected storage faults): "missing store after a failed swap"
		servers[url1] = &server{up: true, crl: newCRL("L2", "CN=I1", s)}
		verifrt.FaultBudget = 2
		verifrt.CloseFaults = true
		_ = w.repo.UpdateCRL(loc, chainsOf(c0))
		verifrt.FaultBudget = 0
	case 0:
		verifrt.GetFaults = true
	case 1: // store closed by a concurrent shutdown of the store (entry still registered)
		w.entryFor(url1).CRLStore.Close()
	case 2: // record corrupted
		d := verifrt.Disk[filepath.Join("/work", idOfCDP(url1))]
		garbage := [][]byte{{}, {0x30}, {0xEE}}[verifrt.Choose(3)]
		for i := range d.KV {
			d.KV[i].V = garbage
		}
	}
	withLoc := verifrt.Choose(2) == 1
	var l *core.CRLLocations
	if withLoc {
		l = loc
	}
	st, ierr := w.repo.IsRevoked(cert("CN=I1", probe, url1), l)
	isListed := probe.Cmp(s) == 0
	switch fault {
	case 3:
		verifrt.Reach("failed-swap")
		if isListed {
			verifrt.Assert(ierr != nil || (st != nil && st.Revoked), "after a failed swap a listed certificate is denied: revoked or an error, never 'not revoked'")
		}
	case 0:
		verifrt.Reach("read-fault")
		if ierr == nil {
			verifrt.Assert(st.Revoked == isListed, "no fault hit: exact answer")
		}
	case 1:
		verifrt.Reach("closed")
		verifrt.Assert(ierr != nil, "closed store: the lookup is an error")
	case 2:
		verifrt.Reach("corrupt")
		if isListed {
			verifrt.Assert(ierr != nil, "corrupted record of a listed certificate: the lookup is an error")
		}
	}
	if ierr == nil && st != nil && !st.Revoked {
		verifrt.Assert(!isListed, "'not revoked' is only ever said about unlisted certificates")
	}
	// the fault persists: asking again (the next handshake) must not turn it into 'not revoked' either
	if fault == 1 || fault == 2 {
		st2, ierr2 := w.repo.IsRevoked(cert("CN=I1", probe, url1), l)
		if fault == 1 {
			verifrt.Assert(ierr2 != nil, "closed store: the second lookup is an error as well")
		} else if isListed {
			verifrt.Assert(ierr2 != nil, "corrupted record: the second lookup is an error as well")
		}
		if ierr2 == nil && st2 != nil && !st2.Revoked {
			verifrt.Assert(!isListed, "second lookup: 'not revoked' is only ever said about unlisted certificates")
		}
		verifrt.Reach("second-lookup")
	}
}
