package crlrepository

import "github.com/gr33nbl00d/caddy-revocation-validator/core/asn1parser"

var asn1parserBitString = asn1parser.BitString{Bytes: []byte{9}, BitLength: 8}
