package crlrepository

import (
	"crypto"
	"crypto/x509"
	"crypto/x509/pkix"
	"encoding/asn1"
	"math/big"

	"github.com/gr33nbl00d/caddy-revocation-validator/core"
	"github.com/gr33nbl00d/caddy-revocation-validator/core/signatureverify"
	"github.com/gr33nbl00d/caddy-revocation-validator/crl/crlreader"
	"github.com/gr33nbl00d/caddy-revocation-validator/crl/crlreader/extensionsupport"
	"github.com/gr33nbl00d/caddy-revocation-validator/crl/crlstore"
	"github.com/gr33nbl00d/caddy-revocation-validator/zz_verif/verifrt"
)

// keyTok stands for a public key; valid = "the CRL signature verifies under this key"
// (uninterpreted predicate valid(key, digest, sig) of DESIGN.md 1.5, one symbolic bool per key)
type keyTok struct{ valid bool }

type certModel struct {
	cert     *x509.Certificate
	subject  string
	issuer   string
	ski      []byte
	role     int // 0 end-entity, 1 CA above it in the presented chain, 2 configured trusted signer
	keyValid bool
}

var (
	certModels map[*x509.Certificate]*certModel
	akiModel   extensionsupport.AuthorityKeyIdentifier
)

var oidAKI = asn1.ObjectIdentifier{2, 5, 29, 35}
var oidSKI = asn1.ObjectIdentifier{2, 5, 29, 14}

func symCert(role int, label string) *certModel {
	m := &certModel{role: role}
	m.subject = []string{"CN=CA", "CN=X"}[verifrt.Choose(2)]
	m.issuer = "CN=ROOT"
	m.ski = [][]byte{{0x6b, 0x31}, {0x6b, 0x32}}[verifrt.Choose(2)]
	m.keyValid = verifrt.NondetBool("valid_" + label)
	c := &x509.Certificate{SerialNumber: big.NewInt(int64(100 + role)), PublicKeyAlgorithm: x509.RSA, PublicKey: &keyTok{m.keyValid}}
	switch verifrt.Choose(3) {
	case 0: // no keyUsage extension
	case 1:
		c.KeyUsage = x509.KeyUsageCRLSign | x509.KeyUsageCertSign
	case 2:
		c.KeyUsage = x509.KeyUsageDigitalSignature
	}
	if role == 1 {
		c.IsCA, c.BasicConstraintsValid = true, true
	}
	// SubjectKeyIdentifier extension value = OCTET STRING ski
	c.Extensions = []pkix.Extension{{Id: oidSKI, Value: append([]byte{0x04, byte(len(m.ski))}, m.ski...)}}
	if c.KeyUsage != 0 {
		// the keyUsage extension as it sits in the certificate: critical or not (the CA's choice) - a key
		// usage that lacks cRLSign disqualifies the certificate either way
		c.Extensions = append(c.Extensions, pkix.Extension{Id: asn1.ObjectIdentifier{2, 5, 29, 15}, Critical: verifrt.NondetBool("keyUsageCritical_" + label), Value: []byte{0x03, 0x02, 0x01, 0x06}})
	}
	if role == 0 && verifrt.Choose(2) == 1 {
		c.Extensions = nil // an end-entity certificate without subject key identifier
		m.ski = []byte{0, 0}
	}
	m.cert = c
	certModels[c] = m
	return m
}

func installC04() {
	crlstore.VerifInstallStoreModels()
	certModels = map[*x509.Certificate]*certModel{}
	verifrt.Override("(*"+modRoot+"/core/signatureverify.RSASignatureVerifyStrategy).VerifySignature", func(t *signatureverify.RSASignatureVerifyStrategy, h crypto.Hash, key interface{}, d, s []byte) error {
		if k, ok := key.(*keyTok); ok && k.valid {
			return nil
		}
		return verifrt.NewError("crypto/rsa: verification error")
	})
	verifrt.Override("("+modRoot+"/core/signatureverify.RSASignatureVerifyStrategy).VerifySignature", func(t signatureverify.RSASignatureVerifyStrategy, h crypto.Hash, key interface{}, d, s []byte) error {
		if k, ok := key.(*keyTok); ok && k.valid {
			return nil
		}
		return verifrt.NewError("crypto/rsa: verification error")
	})
	verifrt.Override(modRoot+"/core/asn1parser.ParseSubjectRDNSequence", func(c *x509.Certificate) (*pkix.RDNSequence, error) {
		return crlstore.VerifRdn(certModels[c].subject), nil
	})
	verifrt.Override(modRoot+"/core/asn1parser.ParseIssuerRDNSequence", func(c *x509.Certificate) (*pkix.RDNSequence, error) {
		return crlstore.VerifRdn(certModels[c].issuer), nil
	})
	verifrt.Override("encoding/asn1.Unmarshal", func(b []byte, val interface{}) ([]byte, error) {
		switch v := val.(type) {
		case *extensionsupport.AuthorityKeyIdentifier:
			*v = akiModel
		case *pkix.RDNSequence:
			*v = *crlstore.VerifRdn("CN=ROOT")
		}
		return nil, nil
	})
}

// VerifC04_Signer: the REAL verifyCRLSignature / FindCertificateIssuerCandidates / NewCertificateChains
// over a presented chain [end-entity, CA] plus an optional configured trusted signer, each with
// arbitrary subject, SKI, keyUsage and "signature verifies under this key" bit; CRL issuer CN=CA;
// AKI in {absent, keyIdentifier, issuer+serial}.
//   returned signer => signature valid under its key AND it is entitled: a CA above the end-entity or a
//   configured trusted signer, matching by name / AKI, keyUsage absent or cRLSign
//   an entitled certificate whose key verifies exists => verification succeeds
func VerifC04_Signer() {
	installC04()
	ee := symCert(0, "ee")
	ca := symCert(1, "ca")
	var trusted []*x509.Certificate
	var ts *certModel
	if verifrt.Choose(2) == 1 {
		ts = symCert(2, "ts")
		trusted = []*x509.Certificate{ts.cert}
	}
	chains := core.NewCertificateChains([][]*x509.Certificate{{ee.cert, ca.cert}}, trusted)
	akiForm := verifrt.Choose(6)
	var exts []pkix.Extension
	switch akiForm {
	case 1:
		akiModel = extensionsupport.AuthorityKeyIdentifier{KeyIdentifier: []byte{0x6b, 0x31}}
		exts = []pkix.Extension{{Id: oidAKI, Value: []byte{0x30, 0x00}}}
	case 2:
		akiModel = extensionsupport.AuthorityKeyIdentifier{AuthorityCertSerialNumber: big.NewInt(101)}
		akiModel.AuthorityCertIssuer.DirectoryName.Bytes = []byte{0x30, 0x02, 0x31, 0x00}
		exts = []pkix.Extension{{Id: oidAKI, Value: []byte{0x30, 0x00}}}
	case 3: // issuer+serial form whose authorityCertIssuer is not a directory name (a URI): names nobody
		akiModel = extensionsupport.AuthorityKeyIdentifier{AuthorityCertSerialNumber: big.NewInt(101)}
		akiModel.AuthorityCertIssuer.UniformResourceIdentifier.Bytes = []byte("http://ca.example/")
		exts = []pkix.Extension{{Id: oidAKI, Value: []byte{0x30, 0x00}}}
	case 4: // authorityCertIssuer without serial number and without key identifier: identifies nobody
		akiModel = extensionsupport.AuthorityKeyIdentifier{}
		akiModel.AuthorityCertIssuer.DirectoryName.Bytes = []byte{0x30, 0x02, 0x31, 0x00}
		exts = []pkix.Extension{{Id: oidAKI, Value: []byte{0x30, 0x00}}}
	case 5: // key identifier AND issuer+serial (both name the signer)
		akiModel = extensionsupport.AuthorityKeyIdentifier{KeyIdentifier: []byte{0x6b, 0x31}, AuthorityCertSerialNumber: big.NewInt(101)}
		akiModel.AuthorityCertIssuer.DirectoryName.Bytes = []byte{0x30, 0x02, 0x31, 0x00}
		exts = []pkix.Extension{{Id: oidAKI, Value: []byte{0x30, 0x00}}}
	}
	if akiForm >= 2 {
		// like encoding/asn1: Raw holds the encoding of a GeneralName that is present
		akiModel.AuthorityCertIssuer.Raw = []byte{0xa1, 0x06, 0xa4, 0x04, 0x30, 0x02, 0x31, 0x00}
	}
	var extp *[]pkix.Extension
	if akiForm != 0 {
		extp = &exts
	}
	hv, herr := signatureverify.LookupHashAndVerifyStrategies(pkix.AlgorithmIdentifier{Algorithm: asn1.ObjectIdentifier{1, 2, 840, 113549, 1, 1, 11}})
	verifrt.Assert(herr == nil, "sha256WithRSA supported")
	result := &crlreader.CRLReadResult{HashAndVerifyStrategy: hv, Signature: &asn1parserBitString, CalculatedSignature: []byte{1}, Issuer: crlstore.VerifRdn("CN=CA"), CRLExtensions: extp}
	got, err := verifyCRLSignature(result, chains)

	// entitledBy(m, all): with an AKI that carries both forms (5), "all" = named by both (then it MUST
	// be accepted), otherwise named by at least one of them (then it MAY be accepted)
	entitledBy := func(m *certModel, all bool) bool {
		if m == nil || m.role == 0 {
			return false
		}
		if m.cert.KeyUsage != 0 && m.cert.KeyUsage&x509.KeyUsageCRLSign == 0 {
			return false
		}
		bySki := m.ski[1] == 0x31
		bySerial := m.cert.SerialNumber.Cmp(big.NewInt(101)) == 0 && m.issuer == "CN=ROOT"
		switch akiForm {
		case 0:
			return m.subject == "CN=CA"
		case 1:
			return bySki
		case 2:
			return bySerial
		case 5:
			if all {
				return bySki && bySerial
			}
			return bySki || bySerial
		default: // 3, 4: the AKI identifies no certificate
			return false
		}
	}
	entitled := func(m *certModel) bool { return entitledBy(m, false) }
	mustAccept := func(m *certModel) bool { return entitledBy(m, true) }
	if err == nil {
		verifrt.Reach("verified")
		m := certModels[got.Certificate]
		verifrt.Assert(m != nil && m.keyValid, "the signature verifies under the returned signer's key")
		verifrt.Assert(m != nil && m.role != 0, "the end-entity certificate is never accepted as signer of its own CRL")
		verifrt.Assert(entitled(m), "the signer is a CA above the end-entity or a trusted signer, matches name/AKI, and its keyUsage permits CRL signing")
	} else {
		verifrt.Reach("rejected")
		someone := (mustAccept(ca) && ca.keyValid) || (ts != nil && mustAccept(ts) && ts.keyValid)
		verifrt.Assert(!someone, "a CRL signed by an entitled issuer is accepted")
	}
}
