package crlrepository

import (
	"math/big"
	"strings"

	"github.com/gr33nbl00d/caddy-revocation-validator/config"
	"github.com/gr33nbl00d/caddy-revocation-validator/core"
	"github.com/gr33nbl00d/caddy-revocation-validator/zz_verif/verifrt"
)

const url1 = "http://a/crl"

// VerifC08_Refresh: one inductive step. Pre-state: location loaded with the complete list OLD
// (built through the real AddCRL). One refresh with a symbolic failure: server down | garbage |
// truncated after j entries | rejected at the end | bad signature | one injected storage fault at
// any effect (staging store, inserts, swap steps). Post: failed => lookups answer exactly as under
// OLD and the location is still in force; succeeded => exactly as under NEW; never a mix.
// Then a second, fault-free refresh to NEW2 must take effect.
func VerifC08_Refresh() {
	installWorld()
	disk := verifrt.Param("disk", 0) == 1
	w := newWorld(disk, config.CRLFetchModeActively, false, config.SignatureValidationModeVerify)
	sOld, sBoth, sNew := sym("s_old"), sym("s_both"), sym("s_new")
	verifrt.Assume(sOld.Cmp(sBoth) != 0)
	verifrt.Assume(sOld.Cmp(sNew) != 0)
	verifrt.Assume(sBoth.Cmp(sNew) != 0)
	old := newCRL("OLD", "CN=I1", sOld, sBoth)
	servers[url1] = &server{up: true, crl: old}
	c0 := cert("CN=I1", sOld, url1)
	loc := &core.CRLLocations{CRLDistributionPoints: []string{url1}}
	added, err := w.repo.AddCRL(loc, chainsOf(c0))
	verifrt.Assert(err == nil && added, "first load of a good CRL succeeds")
	if err != nil {
		return
	}
	verifrt.Assert(w.entryFor(url1) != nil && w.entryFor(url1).Loaded, "location in force after first load")

	// the refresh and its failure mode
	nw := newCRL("NEW", "CN=I1", sBoth, sNew)
	mode := verifrt.Choose(7)
	srv := servers[url1]
	srv.crl = nw
	switch mode {
	case 0: // clean
	case 1:
		srv.up = false
	case 2:
		srv.crl = nil // garbage body
	case 3:
		nw.readFailAfter = verifrt.Choose(3)
	case 4:
		nw.rejectAtEnd = true
	case 5:
		nw.sigOK = false
	case 6:
		verifrt.FaultBudget = verifrt.Param("faults", 1)
		verifrt.CloseFaults = true
	}
	rerr := w.repo.UpdateCRL(loc, chainsOf(c0))
	verifrt.FaultBudget = 0
	injected := verifrt.FaultLog
	verifrt.FaultLog = nil // the storage fault was transient with respect to later refreshes
	if mode >= 1 && mode <= 5 {
		verifrt.Assert(rerr != nil, "a refresh that cannot obtain an acceptable list reports failure")
	}
	if mode == 0 {
		verifrt.Assert(rerr == nil, "a clean refresh succeeds")
	}
	// Not claimed: the environment refuses, persistently, to open the database directory at its live
	// name. No implementation can serve lookups then; the store must fail closed (checked) and the
	// situation lasts until the directory can be opened again (restart).
	// ... nor can anybody serve when, after a refused move-in, the OS also refuses to move the previous
	// database back (double fault): fail closed is then the only correct behaviour.
	liveOpenRefused := false
	for _, f := range injected {
		if strings.HasPrefix(f, "open /work/"+idOfCDP(url1)) {
			liveOpenRefused = true
		}
		if strings.HasPrefix(f, "rename /work/crl_") && strings.Contains(f, " -> /work/"+idOfCDP(url1)) && len(injected) == 2 && strings.HasPrefix(injected[0], "rename /work/crl_") {
			liveOpenRefused = true // move-in refused and move-back refused
		}
	}
	if liveOpenRefused {
		verifrt.Reach("live-open-refused")
		verifrt.Assert(rerr != nil, "refresh reports the failure")
		for _, p := range []*big.Int{sOld, sBoth, sNew} {
			st, err := w.repo.IsRevoked(cert("CN=I1", p), nil)
			verifrt.Assert(err != nil || st.Revoked == listed(old, "CN=I1", p) || st.Revoked == listed(nw, "CN=I1", p), "fails closed or answers from a complete list")
		}
		return
	}
	expect := old
	if rerr == nil {
		expect = nw
		verifrt.Reach("refresh-ok")
	} else {
		verifrt.Reach("refresh-failed")
	}
	w.checkProbes(expect, sOld, sBoth, sNew, "after first refresh")

	// history length 2: a later clean refresh still takes effect
	s2 := sym("s_new2")
	n2 := newCRL("NEW2", "CN=I1", s2)
	servers[url1] = &server{up: true, crl: n2}
	r2 := w.repo.UpdateCRL(loc, chainsOf(c0))
	verifrt.Assert(r2 == nil, "a later clean refresh succeeds")
	if r2 == nil {
		st, e := w.repo.IsRevoked(cert("CN=I1", s2), nil)
		verifrt.Assert(e == nil && st.Revoked, "the later refresh takes effect")
	}
	if disk && len(injected) == 0 {
		verifrt.Assert(verifrt.TempResidue("/work") == 0, "no temporary artefacts after refreshes")
	}
}

// checkProbes: the three probe serials answer exactly as listed in `expect`, and the location is in force.
func (w *world) checkProbes(expect *modelCRL, sOld, sBoth, sNew *big.Int, when string) {
	e := w.entryFor(url1)
	verifrt.Assert(e != nil && e.Loaded && e.CRLStore != nil, "location still present and in force "+when)
	if e == nil || e.CRLStore == nil {
		return
	}
	for _, p := range []*big.Int{sOld, sBoth, sNew} {
		st, err := w.repo.IsRevoked(cert("CN=I1", p), nil)
		verifrt.Assert(err == nil && st != nil, "lookup works "+when)
		if err == nil && st != nil {
			verifrt.Assert(st.Revoked == listed(expect, "CN=I1", p), "answer is exactly that of the complete list in force "+when)
		}
	}
}

// VerifC08_SignerHistory: keyed signatures. A list signed with the CA key K0 is in force; a refresh
// delivers a list signed with an unknown key K1 (rejected under verify); the next refresh delivers a K0
// list again (accepted); then a handshake presents a chain whose CA carries K1; then K0 lists keep
// arriving. Nothing of the rejected refresh may survive the accepted one: every later K0 list takes
// effect ("a later successful refresh still takes effect"), on both backends.
func VerifC08_SignerHistory() {
	installWorld()
	w := newWorld(verifrt.Param("disk", 0) == 1, config.CRLFetchModeActively, false, config.SignatureValidationModeVerify)
	s1, s2, s3, sB := sym("s1"), sym("s2"), sym("s3"), sym("sB")
	all := []*big.Int{s1, s2, s3, sB}
	for i := range all {
		for j := i + 1; j < len(all); j++ {
			verifrt.Assume(all[i].Cmp(all[j]) != 0)
		}
	}
	loc := &core.CRLLocations{CRLDistributionPoints: []string{url1}}
	c0 := cert("CN=I1", s1, url1)
	mk := func(name string, key int, serial *big.Int) *modelCRL {
		l := newCRL(name, "CN=I1", serial)
		l.signedBy = key
		return l
	}
	servers[url1] = &server{up: true, crl: mk("L1", 0, s1)}
	_, err := w.repo.AddCRL(loc, chainsOfKey(c0, 0))
	verifrt.Assert(err == nil, "first load (key K0 presented)")
	revoked := func(s *big.Int) bool {
		st, e := w.repo.IsRevoked(cert("CN=I1", s), nil)
		return e == nil && st != nil && st.Revoked
	}
	servers[url1].crl = mk("LB", 1, sB)
	w.repo.UpdateCRLs()
	verifrt.Assert(revoked(s1) && !revoked(sB), "a list signed with an unknown key is rejected, the previous list stays")
	servers[url1].crl = mk("L2", 0, s2)
	w.repo.UpdateCRLs()
	verifrt.Assert(revoked(s2) && !revoked(s1), "the next correctly signed list takes effect")
	if verifrt.Choose(2) == 1 {
		// a handshake whose chain carries the other key
		_, _ = w.repo.AddCRL(loc, chainsOfKey(cert("CN=I1", s3, url1), 1))
		verifrt.Reach("handshake-with-other-key")
	}
	verifrt.Assert(revoked(s2) && !revoked(sB), "a handshake does not bring the rejected list back")
	servers[url1].crl = mk("L3", 0, s3)
	w.repo.UpdateCRLs()
	verifrt.Assert(revoked(s3) && !revoked(s2), "later correctly signed lists keep taking effect (nothing of the rejected refresh survived)")
	verifrt.Reach("signer-history")
}
