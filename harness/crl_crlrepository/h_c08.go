package crlrepository

import (
	"math/big"
	"strings"

	"github.com/gr33nbl00d/caddy-revocation-validator/config"
	"github.com/gr33nbl00d/caddy-revocation-validator/core"
	"github.com/gr33nbl00d/caddy-revocation-validator/zz_verif/verifrt"
)

const url1 = "http://a/crl"

// VerifC08_Refresh: one inductive step. Pre-state: location loaded with the complete list OLD
// (built through the real AddCRL). One refresh with a symbolic failure: server down | garbage |
// truncated after j entries | rejected at the end | bad signature | one injected storage fault at
// any effect (staging store, inserts, swap steps). Post: failed => lookups answer exactly as under
// OLD and the location is still in force; succeeded => exactly as under NEW; never a mix.
// Then a second, fault-free refresh to NEW2 must take effect.
func VerifC08_Refresh() {
	installWorld()
	disk := verifrt.Param("disk", 0) == 1
	w := newWorld(disk, config.CRLFetchModeActively, false, config.SignatureValidationModeVerify)
	sOld, sBoth, sNew := sym("s_old"), sym("s_both"), sym("s_new")
	verifrt.Assume(sOld.Cmp(sBoth) != 0)
	verifrt.Assume(sOld.Cmp(sNew) != 0)
	verifrt.Assume(sBoth.Cmp(sNew) != 0)
	old := newCRL("OLD", "CN=I1", sOld, sBoth)
	servers[url1] = &server{up: true, crl: old}
	c0 := cert("CN=I1", sOld, url1)
	loc := &core.CRLLocations{CRLDistributionPoints: []string{url1}}
	added, err := w.repo.AddCRL(loc, chainsOf(c0))
	verifrt.Assert(err == nil && added, "first load of a good CRL succeeds")
	if err != nil {
		return
	}
	verifrt.Assert(w.entryFor(url1) != nil && w.entryFor(url1).Loaded, "location in force after first load")

	// the refresh and its failure mode
	nw := newCRL("NEW", "CN=I1", sBoth, sNew)
	mode := verifrt.Choose(7)
	srv := servers[url1]
	srv.crl = nw
	switch mode {
	case 0: // clean
	case 1:
		srv.up = false
	case 2:
		srv.crl = nil // garbage body
	case 3:
		nw.readFailAfter = verifrt.Choose(3)
	case 4:
		nw.rejectAtEnd = true
	case 5:
		nw.sigOK = false
	case 6:
		verifrt.FaultBudget = verifrt.Param("faults", 1)
		verifrt.CloseFaults = true
	}
	rerr := w.repo.UpdateCRL(loc, chainsOf(c0))
	verifrt.FaultBudget = 0
	injected := verifrt.FaultLog
	verifrt.FaultLog = nil // the storage fault was transient with respect to later refreshes
	if mode >= 1 && mode <= 5 {
		verifrt.Assert(rerr != nil, "a refresh that cannot obtain an acceptable list reports failure")
	}
	if mode == 0 {
		verifrt.Assert(rerr == nil, "a clean refresh succeeds")
	}
	// Not claimed: the environment refuses, persistently, to open the database directory at its live
	// name. No implementation can serve lookups then; the store must fail closed (checked) and the
	// situation lasts until the directory can be opened again (restart).
	// ... nor can anybody serve when, after a refused move-in, the OS also refuses to move the previous
	// database back (double fault): fail closed is then the only correct behaviour.
	liveOpenRefused := false
	for _, f := range injected {
		if strings.HasPrefix(f, "open /work/"+idOfCDP(url1)) {
			liveOpenRefused = true
		}
		if strings.HasPrefix(f, "rename /work/crl_") && strings.Contains(f, " -> /work/"+idOfCDP(url1)) && len(injected) == 2 && strings.HasPrefix(injected[0], "rename /work/crl_") {
			liveOpenRefused = true // move-in refused and move-back refused
		}
	}
	if liveOpenRefused {
		verifrt.Reach("live-open-refused")
		verifrt.Assert(rerr != nil, "refresh reports the failure")
		for _, p := range []*big.Int{sOld, sBoth, sNew} {
			st, err := w.repo.IsRevoked(cert("CN=I1", p), nil)
			verifrt.Assert(err != nil || st.Revoked == listed(old, "CN=I1", p) || st.Revoked == listed(nw, "CN=I1", p), "fails closed or answers from a complete list")
		}
		return
	}
	expect := old
	if rerr == nil {
		expect = nw
		verifrt.Reach("refresh-ok")
	} else {
		verifrt.Reach("refresh-failed")
	}
	w.checkProbes(expect, sOld, sBoth, sNew, "after first refresh")

	// history length 2: a later clean refresh still takes effect
	s2 := sym("s_new2")
	n2 := newCRL("NEW2", "CN=I1", s2)
	servers[url1] = &server{up: true, crl: n2}
	r2 := w.repo.UpdateCRL(loc, chainsOf(c0))
	verifrt.Assert(r2 == nil, "a later clean refresh succeeds")
	if r2 == nil {
		st, e := w.repo.IsRevoked(cert("CN=I1", s2), nil)
		verifrt.Assert(e == nil && st.Revoked, "the later refresh takes effect")
	}
	if disk && len(injected) == 0 {
		verifrt.Assert(verifrt.TempResidue("/work") == 0, "no temporary artefacts after refreshes")
	}
}

// checkProbes: the three probe serials answer exactly as listed in `expect`, and the location is in force.
func (w *world) checkProbes(expect *modelCRL, sOld, sBoth, sNew *big.Int, when string) {
	e := w.entryFor(url1)
	verifrt.Assert(e != nil && e.Loaded && e.CRLStore != nil, "location still present and in force "+when)
	if e == nil || e.CRLStore == nil {
		return
	}
	for _, p := range []*big.Int{sOld, sBoth, sNew} {
		st, err := w.repo.IsRevoked(cert("CN=I1", p), nil)
		verifrt.Assert(err == nil && st != nil, "lookup works "+when)
		if err == nil && st != nil {
			verifrt.Assert(st.Revoked == listed(expect, "CN=I1", p), "answer is exactly that of the complete list in force "+when)
		}
	}
}
