package crlrepository

import (
	"math/big"
	"path/filepath"

	"github.com/gr33nbl00d/caddy-revocation-validator/config"
	"github.com/gr33nbl00d/caddy-revocation-validator/core"
	"github.com/gr33nbl00d/caddy-revocation-validator/zz_verif/verifrt"
)

// VerifC12_Crash: disk storage; the process dies right after effect number k (symbolic crash point
// = every file-system / database effect of the operation), for a first load or a refresh of an
// accepted or rejected list. After restart (handles gone, temp sweep, AddCRL with the origin down):
//   * the location counts as loaded only if the directory holds one complete accepted list (OLD or NEW)
//   * no temporary artefact remains after the start-up sweep
func VerifC12_Crash() {
	installWorld()
	verifrt.InstallDirListing()
	// every signature mode: under verify_log / none a list that does not verify is accepted, so it may
	// legitimately be what the disk holds after the crash - but never a part of it
	sig := []config.SignatureValidationMode{config.SignatureValidationModeVerify, config.SignatureValidationModeVerifyLog, config.SignatureValidationModeNone}[verifrt.Choose(verifrt.Param("sigmodes", 3))]
	w := newWorld(true, config.CRLFetchModeActively, true, sig)
	sOld, sBoth, sNew := sym("s_old"), sym("s_both"), sym("s_new")
	verifrt.Assume(sOld.Cmp(sBoth) != 0)
	verifrt.Assume(sOld.Cmp(sNew) != 0)
	verifrt.Assume(sBoth.Cmp(sNew) != 0)
	old := newCRL("OLD", "CN=I1", sOld, sBoth)
	nw := newCRL("NEW", "CN=I1", sBoth, sNew)
	loc := &core.CRLLocations{CRLDistributionPoints: []string{url1}}
	scenario := verifrt.Choose(4) // 0 first load accepted, 1 first load rejected, 2 refresh accepted, 3 refresh rejected
	rejected := scenario == 1 || scenario == 3
	if rejected {
		if verifrt.Choose(2) == 0 {
			nw.sigOK = false
			if sig != config.SignatureValidationModeVerify {
				rejected = false // the lax modes accept a list whose signer cannot be verified
			}
		} else {
			nw.rejectAtEnd = true
		}
	}
	var candidates []*modelCRL // complete accepted lists that may legitimately be on disk after the crash
	if scenario >= 2 {
		servers[url1] = &server{up: true, crl: old}
		_, err := w.repo.AddCRL(loc, chainsOf(cert("CN=I1", sOld)))
		verifrt.Assert(err == nil, "OLD loaded")
		candidates = append(candidates, old)
	}
	if !rejected {
		candidates = append(candidates, nw)
	}
	servers[url1] = &server{up: true, crl: nw}
	base := verifrt.Effects
	k := verifrt.Choose(verifrt.Param("maxeffects", 16))
	verifrt.CrashAt = base + k + 1
	crashed := verifrt.CatchCrash(func() {
		if scenario < 2 {
			_, _ = w.repo.AddCRL(loc, chainsOf(cert("CN=I1", sOld)))
		} else {
			_ = w.repo.updateCRL(idOfCDP(url1))
		}
	})
	if !crashed {
		// the operation has fewer effects than k: this crash point does not exist
		verifrt.Reach("completed")
		verifrt.CrashAt = -1
	} else {
		verifrt.Reach("crashed")
	}
	// restart with the origin unreachable
	w.restart()
	verifrt.Assert(verifrt.TempResidue("/work") == 0, "no temporary artefact survives the start-up sweep")
	for _, p := range verifrt.Children("/work") {
		verifrt.Assert(p == "/work/"+idOfCDP(url1), "after the start-up sweep the work_dir holds nothing but live stores (no moved-aside or staging database under any name)")
	}
	servers[url1] = &server{up: false}
	_, _ = w.repo.AddCRL(loc, chainsOf(cert("CN=I1", sOld)))
	e := w.entryFor(url1)
	loaded := e != nil && e.Loaded
	if !loaded {
		verifrt.Reach("not-loaded-after-restart")
		if scenario >= 2 && !crashed {
			verifrt.Assert(false, "a completed refresh never loses the location")
		}
		return
	}
	verifrt.Reach("loaded-after-restart")
	verifrt.Assert(len(candidates) > 0, "a location whose only list was never accepted is not loaded after restart")
	// the data consulted is exactly one of the complete accepted lists
	matches := make([]bool, len(candidates))
	for i := range matches {
		matches[i] = true
	}
	for _, p := range []*big.Int{sOld, sBoth, sNew} {
		st, err := w.repo.IsRevoked(cert("CN=I1", p), loc)
		verifrt.Assert(err == nil, "lookup works after restart")
		if err != nil {
			return
		}
		for i, c := range candidates {
			if st.Revoked != listed(c, "CN=I1", p) {
				matches[i] = false
			}
		}
	}
	any := false
	for _, m := range matches {
		any = any || m
	}
	verifrt.Assert(any, "after restart the loaded data is one complete accepted list (previous or new), never partial or unaccepted")
	// "complete" includes the store's own records: a location that counts as loaded can be refreshed
	// (its locations record and signer are there), and the refreshed list takes effect
	sNext := sym("s_next")
	servers[url1] = &server{up: true, crl: newCRL("NEXT", "CN=I1", sNext)}
	uerr := w.repo.UpdateCRL(loc, chainsOf(cert("CN=I1", sOld)))
	verifrt.Assert(uerr == nil, "a location that is loaded after the restart can be refreshed (no record of the store is missing)")
	if uerr == nil {
		st, err := w.repo.IsRevoked(cert("CN=I1", sNext), loc)
		verifrt.Assert(err == nil && st != nil && st.Revoked, "the refresh after the restart takes effect")
		verifrt.Reach("refreshed-after-restart")
	}
	_ = filepath.Join
}
