package crlrepository

import (
	"math/big"

	"github.com/gr33nbl00d/caddy-revocation-validator/config"
	"github.com/gr33nbl00d/caddy-revocation-validator/core"
	"github.com/gr33nbl00d/caddy-revocation-validator/zz_verif/verifrt"
)

// restart: the process is gone; durable state stays. A new repository is built the way Provision does.
func (w *world) restart() {
	verifrt.Reboot()
	w.repo = w.newRepo()
	verifrt.MapOrders(true) // the directory is listed in any order
	w.repo.DeleteTempFilesIfExist()
	verifrt.MapOrders(false)
}

// inForce: does a lookup for (CN=I1, s) currently say revoked?
func (w *world) revoked(s *big.Int) (bool, error) {
	st, err := w.repo.IsRevoked(cert("CN=I1", s), nil)
	if err != nil {
		return false, err
	}
	return st.Revoked, nil
}

// VerifC16_Policy: signature mode x verification outcome x intake path x backend.
//   verify            & verification fails  => the CRL is not in force, now and after a restart
//   verify_log / none & CRL parses          => in force after intake on EVERY path, and the next refresh succeeds
func VerifC16_Policy() {
	installWorld()
	verifrt.InstallDirListing()
	disk := verifrt.Param("disk", 0) == 1
	sig := config.SignatureValidationMode(verifrt.Choose(3))
	outcome := verifrt.Choose(3) // 0 verifies, 1 signer unknown, 2 signature wrong
	path := verifrt.Choose(4)    // 0 first CDP fetch, 1 configured URL at provisioning, 2 periodic refresh, 3 refresh after restart
	if path == 3 && !disk {
		return
	}
	w := newWorld(disk, config.CRLFetchModeActively, false, sig)
	s1, s2 := sym("s1"), sym("s2")
	verifrt.Assume(s1.Cmp(s2) != 0)
	subject := newCRL("SUBJECT", "CN=I1", s1)
	switch outcome {
	case 1:
		subject.needsChain = true
	case 2:
		subject.sigOK = false
	}
	chains := chainsOf(cert("CN=I1", s1))
	if outcome == 1 {
		chains = &core.CertificateChains{} // the presented chain does not contain the signer
	}
	loc := &core.CRLLocations{CRLDistributionPoints: []string{url1}}
	if path == 1 {
		loc = &core.CRLLocations{CRLUrl: url1}
	}
	// on a refresh the repository supplies the stored signer certificate as chain: 'signer unknown' only
	// bites on the paths where the caller's chains are all there is
	fails := outcome == 2 || (outcome == 1 && path <= 1)
	var ierr error
	switch path {
	case 0:
		servers[url1] = &server{up: true, crl: subject}
		_, ierr = w.repo.AddCRL(loc, chains)
	case 1: // what addCrlUrlsFromConfig does
		servers[url1] = &server{up: true, crl: subject}
		_, ierr = w.repo.AddCRL(loc, chains)
		if ierr == nil {
			ierr = w.repo.UpdateCRL(loc, chains)
		}
	case 2, 3: // a good first list is in force, the SUBJECT list arrives with a refresh
		first := newCRL("FIRST", "CN=I1", s2)
		servers[url1] = &server{up: true, crl: first}
		_, e := w.repo.AddCRL(loc, chainsOf(cert("CN=I1", s1)))
		verifrt.Assert(e == nil, "good first load")
		if e != nil {
			return
		}
		if path == 3 {
			w.restart()
			servers[url1] = &server{up: false}
			_, e = w.repo.AddCRL(loc, chains)
			r2, _ := w.revoked(s2)
			verifrt.Assert(r2, "accepted list survives a restart")
		}
		servers[url1] = &server{up: true, crl: subject}
		ierr = w.repo.updateCRL(idOfCDP(url1))
	}
	r1, e1 := w.revoked(s1)
	if sig == config.SignatureValidationModeVerify && fails {
		verifrt.Reach("verify-rejects")
		verifrt.Assert(ierr != nil, "verify: intake of an unverifiable CRL fails")
		verifrt.Assert(e1 == nil && !r1, "verify: an unverifiable CRL is not in force")
		if disk {
			w.restart()
			servers[url1] = &server{up: false}
			_, _ = w.repo.AddCRL(loc, chains)
			r1b, _ := w.revoked(s1)
			verifrt.Assert(!r1b, "verify: an unverifiable CRL is not in force after a restart either")
		}
		return
	}
	verifrt.Reach("accepted")
	verifrt.Assert(ierr == nil, "a parseable CRL is accepted under this signature policy on this intake path")
	verifrt.Assert(e1 == nil && r1, "the accepted CRL is in force")
	// ... and keeps being refreshed
	s3 := sym("s3")
	next := newCRL("NEXT", "CN=I1", s3)
	next.sigOK, next.needsChain = subject.sigOK, subject.needsChain
	servers[url1] = &server{up: true, crl: next}
	w.repo.UpdateCRLs()
	r3, e3 := w.revoked(s3)
	verifrt.Assert(e3 == nil && r3, "the next refresh succeeds under the same policy")
}
