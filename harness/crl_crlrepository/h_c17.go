package crlrepository

import (
	"github.com/gr33nbl00d/caddy-revocation-validator/config"
	"github.com/gr33nbl00d/caddy-revocation-validator/core"
	"github.com/gr33nbl00d/caddy-revocation-validator/zz_verif/verifrt"
)

// VerifC17_Glue: the repository's own part of the path download -> parse -> store (first load, refresh,
// refresh of an unchanged list, rejected refresh; both backends; every signature mode) never takes the
// downloaded document - 1 MiB in the world model - into memory as a whole: no allocation of half the
// document size or more happens in repository code between the download and the swap.
func VerifC17_Glue() {
	installWorld()
	sig := config.SignatureValidationMode(verifrt.Choose(3))
	w := newWorld(verifrt.Choose(2) == 1, config.CRLFetchModeActively, false, sig)
	s1, s2 := sym("s1"), sym("s2")
	loc := &core.CRLLocations{CRLDistributionPoints: []string{url1}}
	verifrt.AllocBudget(verifrt.DocSize / 2) // any buffer that follows the document size is at least the document
	servers[url1] = &server{up: true, crl: newCRL("L1", "CN=I1", s1)}
	_, err := w.repo.AddCRL(loc, chainsOf(cert("CN=I1", s1, url1)))
	verifrt.Assert(err == nil, "first load")
	switch verifrt.Choose(3) {
	case 0: // the same list again
	case 1: // a new list
		servers[url1] = &server{up: true, crl: newCRL("L2", "CN=I1", s1, s2)}
	case 2: // a list that is rejected at the end
		bad := newCRL("L3", "CN=I1", s2)
		bad.rejectAtEnd = true
		servers[url1] = &server{up: true, crl: bad}
	}
	_ = w.repo.UpdateCRL(loc, chainsOf(cert("CN=I1", s1, url1)))
	w.repo.UpdateCRLs()
	verifrt.Reach("glue")
}
