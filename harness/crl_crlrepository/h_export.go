package crlrepository

import (
	"crypto/x509"
	"math/big"

	"github.com/gr33nbl00d/caddy-revocation-validator/config"
)

// exported facade of the modelled world for harnesses in package crl

type VerifCRL = modelCRL

func VerifInstallWorld() { installWorld() }

func VerifNewRepo(disk bool, cfg *config.CRLConfig) *Repository {
	w := &world{cfg: cfg, disk: disk}
	return w.newRepo()
}

func VerifNewCRL(name, issuer string, serials ...*big.Int) *VerifCRL { return newCRL(name, issuer, serials...) }
func (c *VerifCRL) SetSigOK(ok bool)                              { c.sigOK = ok }
func (c *VerifCRL) SetNeedsChain(b bool)                          { c.needsChain = b }
func (c *VerifCRL) SetNeedsIssuerCA(b bool)                       { c.needsIssuerCA = b }
func (c *VerifCRL) SetReadFailAfter(j int)                        { c.readFailAfter = j }
func (c *VerifCRL) SetRejectAtEnd(b bool)                         { c.rejectAtEnd = b }
func (c *VerifCRL) Listed(issuer string, s *big.Int) bool         { return listed(c, issuer, s) }
func (c *VerifCRL) SigOK() bool                                   { return c.sigOK }
func (c *VerifCRL) Parses() bool                                  { return c.readFailAfter < 0 && !c.rejectAtEnd }

func VerifSetServer(loc string, up bool, c *VerifCRL) { servers[loc] = &server{up: up, crl: c} }
func VerifCert(issuer string, serial *big.Int, cdp ...string) *x509.Certificate {
	return cert(issuer, serial, cdp...)
}
func VerifLoadCalls() int   { return loadCalls }
func VerifReadCalls() int   { return readCalls }
func VerifVerifyCalls() int { return verifyCalls }

// VerifEntryState reports (present, loaded) of the entry for a single-URL distribution point set / url / file
func (R *Repository) VerifEntryState(id string) (bool, bool) {
	e := R.crlRepository[id]
	if e == nil {
		return false, false
	}
	return true, e.Loaded
}

func (R *Repository) VerifEntries() int { return len(R.crlRepository) }
