package crlrepository

import (
	"go.uber.org/zap"

	"github.com/gr33nbl00d/caddy-revocation-validator/crl/crlstore"
	"github.com/gr33nbl00d/caddy-revocation-validator/zz_verif/verifrt"
	"crypto/x509"
	"math/big"

	"github.com/gr33nbl00d/caddy-revocation-validator/config"
)

// exported facade of the modelled world for harnesses in package crl

type VerifCRL = modelCRL

func VerifInstallWorld() { installWorld() }

func VerifNewRepo(disk bool, cfg *config.CRLConfig) *Repository {
	w := &world{cfg: cfg, disk: disk}
	return w.newRepo()
}

func VerifNewCRL(name, issuer string, serials ...*big.Int) *VerifCRL { return newCRL(name, issuer, serials...) }
func (c *VerifCRL) SetSigOK(ok bool)                              { c.sigOK = ok }
func (c *VerifCRL) SetNeedsChain(b bool)                          { c.needsChain = b }
func (c *VerifCRL) SetNeedsIssuerCA(b bool)                       { c.needsIssuerCA = b }
func (c *VerifCRL) SetReadFailAfter(j int)                        { c.readFailAfter = j }
func (c *VerifCRL) SetRejectAtEnd(b bool)                         { c.rejectAtEnd = b }
func (c *VerifCRL) Listed(issuer string, s *big.Int) bool         { return listed(c, issuer, s) }
func (c *VerifCRL) SigOK() bool                                   { return c.sigOK }
func (c *VerifCRL) Parses() bool                                  { return c.readFailAfter < 0 && !c.rejectAtEnd }

func VerifSetServer(loc string, up bool, c *VerifCRL) { servers[loc] = &server{up: up, crl: c} }
func VerifCert(issuer string, serial *big.Int, cdp ...string) *x509.Certificate {
	return cert(issuer, serial, cdp...)
}
func VerifLoadCalls() int   { return loadCalls }
func VerifReadCalls() int   { return readCalls }
func VerifVerifyCalls() int { return verifyCalls }

// VerifEntryState reports (present, loaded) of the entry for a single-URL distribution point set / url / file
func (R *Repository) VerifEntryState(id string) (bool, bool) {
	e := R.crlRepository[id]
	if e == nil {
		return false, false
	}
	return true, e.Loaded
}

func (R *Repository) VerifEntries() int { return len(R.crlRepository) }

// VerifConsistent: representation invariant of the repository that every API operation - and every
// interleaving of two of them - must re-establish: each registered entry has a loader and a store; an
// entry that counts as loaded has a store holding a list (meta record present, so a restart would see
// it as loaded too); an entry whose last refresh failed verification kept the result it has to re-check.
func (R *Repository) VerifConsistent() (bool, string) {
	for _, e := range R.crlRepository {
		if e == nil {
			continue // closed by shutdown
		}
		if e.CRLLoader == nil || e.CRLStore == nil || e.entryLock == nil {
			return false, "an entry without loader, store or lock"
		}
		if e.Loaded && e.CRLStore.IsEmpty() {
			return false, "an entry counts as loaded but its store holds no list"
		}
		if e.LastUpdateSignatureVerifyFailed && e.LastUpdateSignature == nil {
			return false, "signature-failed state without the result to re-check"
		}
	}
	return true, ""
}

// VerifInstallRepoConstructor: from now on NewCRLRepository (called by the real Provision) yields the
// real repository with the modelled serializer and reader (see newRepo).
func VerifInstallRepoConstructor() {
	const name = modRoot + "/crl/crlrepository.NewCRLRepository"
	var hook func(l *zap.Logger, cfg *config.CRLConfig, t crlstore.StoreType) (error, *Repository)
	hook = func(l *zap.Logger, cfg *config.CRLConfig, t crlstore.StoreType) (error, *Repository) {
		verifrt.ClearOverride(name)
		w := &world{cfg: cfg, disk: t == crlstore.LevelDB}
		r := w.newRepo()
		verifrt.Override(name, hook)
		return nil, r
	}
	verifrt.Override(name, hook)
}

// VerifSetLink: path is a symbolic link that currently points to target (publishers re-point it to each new list)
func VerifSetLink(path, target string) { links[path] = target }

// VerifOnDisk: the repository keeps its lists in the LevelDB backend
func (r *Repository) VerifOnDisk() bool {
	_, ok := r.Factory.(crlstore.LevelDbStoreFactory)
	return ok
}

// SetSignedBy: the list verifies exactly under the key with this number
func (c *VerifCRL) SetSignedBy(k int) { c.signedBy = k }

// VerifCAWithKey: a CA / CRL-signer certificate carrying key number k
func VerifCAWithKey(k int) *x509.Certificate {
	ca := &x509.Certificate{}
	ca.Raw = crlstore.VerifReg(ca)
	certKey[ca] = k
	return ca
}
