package extensionsupport

import (
	"github.com/gr33nbl00d/caddy-revocation-validator/zz_verif/verifrt"
)

// VerifC07_GeneralName: GetGeneralNameType on EVERY raw value of length <= N (attacker-influenced
// AKI content): returns a type or an error - no panic, no unbacked allocation, the recursive
// descent over context-specific tags terminates.
func VerifC07_GeneralName() {
	N := verifrt.Param("N", 10)
	n := verifrt.NondetInt("n")
	verifrt.Assume(n >= 0)
	verifrt.Assume(n <= N)
	raw := verifrt.NondetBytes("raw", N)[:n]
	verifrt.AllocBudget(n + 81920 + 17 + 4096)
	verifrt.StepBudget(verifrt.Param("steps", 2000000), true)
	g := GeneralName{Raw: raw}
	t, err := g.GetGeneralNameType()
	if err == nil {
		verifrt.Reach("type")
		verifrt.Assert(t >= 0 && t <= 15, "a general name type is a context-specific tag number")
	} else {
		verifrt.Reach("error")
	}
}
