package ocsp

import (
	"time"

	"github.com/gr33nbl00d/caddy-revocation-validator/zz_verif/verifrt"
)

var ocspOps = []string{"lookup-fetch", "lookup-cached", "cleanup", "lookup-after-cleanup"}

// VerifC13_OCSPOps: OCSP side of C13. From a provisioned checker with one cached answer, run one
// operation (a lookup that fetches and caches, a lookup served from the cache, Cleanup, or a lookup
// that is still in flight when Cleanup has already run): no panic, and - by the pairwise schedule
// queries over the recorded field accesses - no unsynchronised write to a field another operation reads.
func VerifC13_OCSPOps() {
	installOCSPWorld(1)
	chk := newOCSPChecker(verifrt.Choose(2) == 1, 10*time.Minute)
	s1, s2 := sym("s1"), sym("s2")
	verifrt.Assume(s1.Cmp(s2) != 0)
	certA := clientCert("CN=a", "CN=CA", s1, "http://ocsp")
	certB := clientCert("CN=b", "CN=CA", s2, "http://ocsp")
	ra := &modelResp{wellFormed: true, successful: true, nResponses: 1, serial: s1, signedBy: byIssuer}
	rb := &modelResp{wellFormed: true, successful: true, nResponses: 1, serial: s2, signedBy: byIssuer}
	resps = append(resps, ra, rb)
	httpScript["http://ocsp|0"] = 1
	_, err := chk.IsRevoked(certA, nil) // pre-state: A's answer is cached
	verifrt.Assert(err == nil, "pre-state lookup")
	op := verifrt.Choose(len(ocspOps))
	verifrt.TraceBegin("provisioned/" + ocspOps[op])
	switch op {
	case 0:
		httpScript["http://ocsp|0"] = 2
		_, _ = chk.IsRevoked(certB, nil)
	case 1:
		_, _ = chk.IsRevoked(certA, nil)
	case 2:
		_ = chk.Cleanup()
	case 3:
		_ = chk.Cleanup()
		httpScript["http://ocsp|0"] = 2
		_, _ = chk.IsRevoked(certB, nil) // a handshake that was in flight when the validator was cleaned up
	}
	verifrt.TraceEnd()
	verifrt.Reach(ocspOps[op])
}
