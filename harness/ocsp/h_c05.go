package ocsp

import (
	"math/big"

	"github.com/gr33nbl00d/caddy-revocation-validator/zz_verif/verifrt"
)

func sym(label string) *big.Int { return big.NewInt(verifrt.NondetInt64(label)) }

// VerifC05_Authenticity: one HTTP responder returns a response whose every attribute is arbitrary
// (well-formedness, response status, embedded certificate, who signed what, OCSPSigning EKU, serial,
// certificate status). If the response is used for the verdict or cached, it was authentic:
// successful, signed by a candidate issuer or by a responder that issuer certified for OCSP signing,
// and about exactly the presented serial.
func VerifC05_Authenticity() {
	ncand := 1 + verifrt.Choose(2)
	installOCSPWorld(ncand)
	presented, other := sym("presented"), sym("other")
	verifrt.Assume(presented.Cmp(other) != 0)
	c := newOCSPChecker(verifrt.Choose(2) == 1, 0)
	cert := clientCert("CN=client", "CN=CA", presented, "http://ocsp")
	r := symResp(presented, other, ncand)
	for k := 0; k < ncand; k++ {
		httpScript["http://ocsp|"+string(rune('0'+k))] = 1
	}
	st, err := c.IsRevoked(cert, nil)
	used := err == nil && st != nil && st.OcspResponse != nil
	if used {
		verifrt.Reach("response-used")
		verifrt.Assert(st.OcspResponse == r.obj, "the verdict comes from the delivered response")
		verifrt.Assert(r.authentic(presented), "only an issuer-authorised successful answer for this serial influences the verdict")
	} else {
		verifrt.Reach("response-ignored")
	}
	verifrt.Assert(len(cacheAdds) == 0 || r.authentic(presented), "only an authentic answer is cached")
	if r.authentic(presented) && r.signedBy == byIssuer {
		// completeness: an authentic answer signed directly by a candidate issuer is used
		verifrt.Assert(used, "an authentic answer is not discarded")
	}
}
