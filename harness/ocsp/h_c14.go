package ocsp

import (
	"math/big"
	"time"

	xocsp "golang.org/x/crypto/ocsp"

	"github.com/gr33nbl00d/caddy-revocation-validator/zz_verif/verifrt"
)

// VerifC14_Cache: time is symbolic (time.Now returns arbitrary non-decreasing instants).
// A sequence of up to Q lookups of two certificates that share subject and serial but have different
// issuers, through two checker instances; the responder's answer may change between lookups
// (good -> revoked) and queries may fail.
//   * a cached status is returned only for the (issuer, serial) it was obtained for
//   * only until fetch + lifetime, lifetime = nextUpdate - fetch + 15 min if nextUpdate > fetch, else
//     the default duration - no matter how often it is read
//   * default 0 and no usable nextUpdate => never cached; failed queries are never cached
func VerifC14_Cache() {
	installOCSPWorld(1)
	serial := big.NewInt(4711) // concrete: the clock is the symbolic dimension of this harness
	// two validators in one process, each with its own default_cache_duration (the second is provisioned last)
	defs := []time.Duration{0, 10 * time.Minute}
	if verifrt.Choose(2) == 1 {
		defs = []time.Duration{10 * time.Minute, 0}
	}
	checkers := []*OCSPRevocationChecker{newOCSPChecker(false, defs[0]), newOCSPChecker(false, defs[1])}
	certA := clientCert("CN=client", "CN=CA-A", serial, "http://ocsp")
	certB := clientCert("CN=client", "CN=CA-B", serial, "http://ocsp")
	type fetched struct {
		cert       int
		at         int64
		lifetime   int64
		status     int
		obj        *xocsp.Response
	}
	var fetches []fetched
	Q := verifrt.Param("Q", 3)
	for q := 0; q < Q; q++ {
		which := verifrt.Choose(2)
		cert := certA
		if which == 1 {
			cert = certB
		}
		ci := verifrt.Choose(verifrt.Param("instances", 1))
		chk := checkers[ci]
		def := defs[ci]
		// what the responder would answer right now
		beh := verifrt.Choose(3) // 0 fails, 1 good, 2 revoked
		nuKind := 0
		if beh != 0 {
			nuKind = verifrt.Choose(3)
		}
		var r *modelResp
		if beh == 0 {
			httpScript["http://ocsp|0"] = 0
		} else {
			r = &modelResp{wellFormed: true, successful: true, nResponses: 1, serial: serial, signedBy: byIssuer, status: beh - 1}
			resps = append(resps, r)
			httpScript["http://ocsp|0"] = len(resps)
		}
		// pin the clock for this lookup so that the oracle can speak about "the time of the lookup"
		t := verifrt.NondetInt64("t")
		verifrt.Assume(t > 0)
		verifrt.Assume(t < 1<<60)
		if len(fetches) > 0 || q > 0 {
			verifrt.Assume(t >= lastT)
		}
		lastT = t
		verifrt.SetNow(t)
		if r != nil {
			switch nuKind {
			case 0: // absent
			case 1: // already past
				r.nextUpdate = verifrt.TimeAt(t - int64(time.Hour))
			case 2: // one hour ahead
				r.nextUpdate = verifrt.TimeAt(t + int64(time.Hour))
			}
		}
		before := len(httpLog)
		st, err := chk.IsRevoked(cert, nil)
		contacted := len(httpLog) > before
		if !contacted {
			// served from the cache: must be an entry fetched for the same (issuer, serial), still within its lifetime
			verifrt.Reach("cache-hit")
			verifrt.Assert(err == nil && st != nil && st.OcspResponse != nil, "a cache hit returns a status")
			ok := false
			for _, f := range fetches {
				if st != nil && f.obj == st.OcspResponse {
					ok = true
					verifrt.Assert(f.cert == which, "cached status is only returned for the certificate (issuer and serial) it was obtained for")
					verifrt.Assert(st.Revoked == (f.status == xocsp.Revoked), "a cached answer gives the same verdict as when it was fetched (revoked stays revoked)")
					verifrt.Assert(f.lifetime > 0, "an answer without a lifetime is never cached")
					verifrt.Assert(t <= f.at+f.lifetime, "cached status is not served after its lifetime, however often it was read")
				}
			}
			verifrt.Assert(ok, "a cache hit returns a previously fetched answer")
		} else {
			verifrt.Reach("fetched")
			if err == nil && st != nil && st.OcspResponse != nil && r != nil {
				lt := int64(def)
				if nuKind == 2 {
					lt = int64(time.Hour) + int64(maxClockSkew)
				}
				fetches = append(fetches, fetched{which, t, lt, r.status, st.OcspResponse})
			}
		}
	}
	verifrt.FreeNow()
}

var lastT int64
