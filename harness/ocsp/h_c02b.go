package ocsp

import (
	"crypto/x509"
	"io"
	"net/http"
	"net/url"

	xocsp "golang.org/x/crypto/ocsp"

	"github.com/gr33nbl00d/caddy-revocation-validator/zz_verif/verifrt"
)

// VerifC02_Transport: the REAL executeHttpRequest over a modelled HTTP client. Whatever the responder's
// framing - Content-Length given, or a chunked / streamed answer (ContentLength -1), delivered in one
// piece or in small pieces - the bytes handed to the response parser are exactly the body the responder
// sent (every content, n <= N bytes); a transport failure is an error, never an empty "answer".
func VerifC02_Transport() {
	N := verifrt.Param("N", 6)
	n := 1 + verifrt.Choose(N)
	body := verifrt.NondetBytes("body", n)
	framing := verifrt.Choose(3) // 0 Content-Length = n, 1 chunked (-1), 2 transport error
	chunk := []int{0, 1, 3}[verifrt.Choose(3)]
	var sent *bodyModel
	verifrt.Override("golang.org/x/crypto/ocsp.CreateRequest", func(cert, issuer *x509.Certificate, opts *xocsp.RequestOptions) ([]byte, error) {
		return []byte{0x30, 0x03, 0x0a, 0x01, 0x00}, nil
	})
	verifrt.Override("net/http.NewRequest", func(method, u string, b io.Reader) (*http.Request, error) {
		return &http.Request{Method: method, Header: http.Header{}}, nil
	})
	verifrt.Override("net/url.Parse", func(raw string) (*url.URL, error) { return &url.URL{Host: "ocsp.example.com"}, nil })
	verifrt.Override("(net/http.Header).Add", func(h http.Header, k, v string) {})
	verifrt.Override("(*net/http.Client).Do", func(c *http.Client, r *http.Request) (*http.Response, error) {
		if framing == 2 {
			return nil, verifrt.NewError("dial tcp: connection refused")
		}
		sent = &bodyModel{data: body, chunk: chunk}
		cl := int64(n)
		if framing == 1 {
			cl = -1
		}
		return &http.Response{StatusCode: 200, ContentLength: cl, Body: sent}, nil
	})
	c := newOCSPChecker(false, 0)
	out, err := c.executeHttpRequest("http://ocsp.example.com", &x509.Certificate{}, &x509.Certificate{})
	if framing == 2 {
		verifrt.Reach("transport-error")
		verifrt.Assert(err != nil, "a transport failure is reported as an error")
		return
	}
	verifrt.Reach("answer-delivered")
	verifrt.Assert(err == nil, "a delivered answer is not an error")
	verifrt.Assert(len(out) == n && verifrt.BytesEqual(out, body), "the parser receives exactly the body the responder sent, whatever the framing (Content-Length or chunked)")
	verifrt.Assert(sent != nil && sent.closed, "the response body is closed")
}
