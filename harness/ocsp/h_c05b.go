package ocsp

import (
	"crypto/x509"
	"crypto/x509/pkix"
	"encoding/asn1"
	"math/big"

	"github.com/gr33nbl00d/caddy-revocation-validator/core"
	"github.com/gr33nbl00d/caddy-revocation-validator/crl/crlreader/extensionsupport"
	"github.com/gr33nbl00d/caddy-revocation-validator/zz_verif/verifrt"
)

// VerifC05_RealCandidates: like VerifC05_Authenticity, but the issuer candidates come from the REAL
// core.FindCertificateIssuerCandidates / NewCertificateChains over the verified chain [client, CA]
// (AKI of the client certificate in {absent, keyIdentifier, issuer+serial}; arbitrary serials).
// A response signed directly with the CLIENT's own key, or by a stranger, never counts; one signed
// by the CA does.
func VerifC05_RealCandidates() {
	installOCSPWorld(0)
	verifrt.ClearOverride(modRoot + "/core.FindCertificateIssuerCandidates")
	clientSerial, caSerial := sym("clientSerial"), sym("caSerial")
	verifrt.Assume(clientSerial.Sign() > 0)
	verifrt.Assume(caSerial.Sign() > 0)
	// a CA never issues two certificates with the same serial (RFC 5280 4.1.2.2); the root's own certificate
	// and the client certificate are both issued under CN=CA
	verifrt.Assume(clientSerial.Cmp(caSerial) != 0)
	ski := func(b byte) []pkix.Extension {
		return []pkix.Extension{{Id: asn1.ObjectIdentifier{2, 5, 29, 14}, Value: []byte{0x04, 0x01, b}}}
	}
	ca := &x509.Certificate{SerialNumber: caSerial, PublicKeyAlgorithm: x509.RSA, Extensions: ski(0x11), IsCA: true}
	client := clientCert("CN=client", "CN=CA", clientSerial, "http://ocsp")
	client.PublicKeyAlgorithm = x509.RSA
	subjectOf[ca], issuerOf[ca] = "CN=CA", "CN=CA" // self-signed root
	akiForm := verifrt.Choose(3)
	var aki extensionsupport.AuthorityKeyIdentifier
	client.Extensions = ski(0x22)
	if verifrt.Choose(2) == 1 {
		client.Extensions = nil // end-entity certificates often carry no subject key identifier
	}
	switch akiForm {
	case 1:
		aki = extensionsupport.AuthorityKeyIdentifier{KeyIdentifier: []byte{0x11}}
		client.Extensions = append(client.Extensions, pkix.Extension{Id: asn1.ObjectIdentifier{2, 5, 29, 35}, Value: []byte{0x30, 0x00}})
	case 2:
		aki = extensionsupport.AuthorityKeyIdentifier{AuthorityCertSerialNumber: caSerial}
		aki.AuthorityCertIssuer.DirectoryName.Bytes = []byte{0x30, 0x02, 0x31, 0x00}
		client.Extensions = append(client.Extensions, pkix.Extension{Id: asn1.ObjectIdentifier{2, 5, 29, 35}, Value: []byte{0x30, 0x00}})
	}
	verifrt.Override("encoding/asn1.Unmarshal", func(b []byte, val interface{}) ([]byte, error) {
		switch v := val.(type) {
		case *extensionsupport.AuthorityKeyIdentifier:
			*v = aki
		case *pkix.RDNSequence:
			*v = *rdn("CN=CA")
		}
		return nil, nil
	})
	// a responder certificate configured as trusted that has nothing to do with this certificate's issuer
	// (another CA's responder: other name, other key identifier, other serial)
	tr := &x509.Certificate{SerialNumber: big.NewInt(99991), PublicKeyAlgorithm: x509.RSA, Extensions: ski(0x33)}
	subjectOf[tr], issuerOf[tr] = "CN=Other Responder", "CN=Other CA"
	withTrusted := verifrt.Choose(2) == 1
	candidates = []*x509.Certificate{client, ca, tr} // index 0 = the client's own key, 1 = the CA's key, 2 = the unrelated trusted responder
	signer := verifrt.Choose(4)                      // 0 client's own key, 1 CA, 2 stranger, 3 the unrelated trusted responder
	r := &modelResp{wellFormed: true, successful: true, nResponses: 1, serial: clientSerial, signedBy: byIssuer, signerIdx: signer, status: verifrt.Choose(2)}
	if signer == 2 {
		r.signedBy = byStranger
	}
	if signer == 3 {
		r.signerIdx = 2
	}
	resps = append(resps, r)
	httpScript["http://ocsp|0"], httpScript["http://ocsp|1"], httpScript["http://ocsp|2"] = 1, 1, 1
	c := newOCSPChecker(false, 0)
	if withTrusted {
		c.ocspConfig.TrustedResponderCerts = []*x509.Certificate{tr}
	}
	if verifrt.Param("debug", 0) == 1 {
		chains := core.NewCertificateChains([][]*x509.Certificate{{client, ca}}, nil)
		cs, e := core.FindCertificateIssuerCandidates(rdn("CN=CA"), &client.Extensions, x509.RSA, chains)
		verifrt.Assert(e == nil, "dbg: no error")
		verifrt.Assert(len(cs) == 1, "dbg: exactly one candidate")
		if len(cs) >= 1 {
			verifrt.Assert(cs[0].Certificate == ca, "dbg: candidate is the CA")
		}
	}
	if verifrt.Choose(2) == 1 {
		// the same validator first checked a certificate of the PREVIOUS generation of this CA (same name,
		// other key): nothing of that lookup may decide who can vouch for the present certificate
		caOld := &x509.Certificate{SerialNumber: big.NewInt(77770), PublicKeyAlgorithm: x509.RSA, Extensions: ski(0x44), IsCA: true}
		subjectOf[caOld], issuerOf[caOld] = "CN=CA", "CN=CA"
		clientOld := clientCert("CN=client-old", "CN=CA", big.NewInt(77771), "http://ocsp-old")
		clientOld.PublicKeyAlgorithm = x509.RSA
		candidates = append(candidates, caOld) // index 3
		_, _ = c.IsRevoked(clientOld, [][]*x509.Certificate{{clientOld, caOld}})
		httpScript["http://ocsp|3"] = 1
		verifrt.Reach("earlier-lookup-of-older-generation")
	}
	st, err := c.IsRevoked(client, [][]*x509.Certificate{{client, ca}})
	used := err == nil && st != nil && st.OcspResponse != nil
	if signer == 1 {
		verifrt.Reach("ca-signed")
		verifrt.Assert(used, "an answer signed by the issuing CA is used")
	} else {
		verifrt.Reach("not-ca-signed")
		verifrt.Assert(!used, "an answer signed with the client's own key, by a stranger, or by a trusted responder of ANOTHER issuer is treated as no answer")
		verifrt.Assert(len(cacheAdds) == 0, "and is not cached")
	}
	var _ *big.Int
}
