package ocsp

import (
	"crypto/x509"
	"io"
	"net/http"
	"net/url"
	"crypto/x509/pkix"
	"math/big"
	"time"

	"github.com/gr33nbl00d/caddy-revocation-validator/config"
	"github.com/gr33nbl00d/caddy-revocation-validator/core"
	"github.com/gr33nbl00d/caddy-revocation-validator/zz_verif/verifrt"
	"github.com/muesli/cache2go"
	xocsp "golang.org/x/crypto/ocsp"
)

const modRoot = "github.com/gr33nbl00d/caddy-revocation-validator"

// ---- model of an OCSP response (attributes the library contract depends on) ----

const (
	byIssuer   = 0 // signed by the candidate issuer number `signerIdx`
	byEmbedded = 1 // signed by the key of the embedded certificate
	byStranger = 2 // signed by a key nobody trusts
)

type modelResp struct {
	wellFormed, successful bool
	nResponses             int
	hasEmbedded            bool
	signedBy               int
	signerIdx              int  // candidate index when signedBy == byIssuer
	embeddedIssuedBy       int  // candidate index that signed the embedded certificate, -1 = stranger
	embeddedEKU            bool // embedded certificate carries id-kp-OCSPSigning
	otherEKU               bool // ... carries an extended key usage extension WITHOUT id-kp-OCSPSigning (any other purpose, anyExtendedKeyUsage included)
	serial                 *big.Int
	status                 int
	nextUpdate             time.Time
	obj                    *xocsp.Response
}

var (
	resps      []*modelResp
	candidates []*x509.Certificate
	httpLog    []string
	httpScript map[string]int // "server|candidateIdx" -> response index (+1), 0 = transport error, -1 = empty body
)

func respBytes(i int) []byte { return []byte{0xA0, byte(i)} }

func respOf(b []byte) *modelResp {
	if len(b) != 2 || b[0] != 0xA0 || int(b[1]) >= len(resps) {
		return nil
	}
	return resps[b[1]]
}

func candIdx(c *x509.Certificate) int {
	for i, k := range candidates {
		if k == c {
			return i
		}
	}
	return -1
}

// modelParse: the contract of golang.org/x/crypto/ocsp v0.23.0 ParseResponseForCert, written from its source:
// fails unless well-formed & successful; exactly one response when cert == nil, else the one matching
// cert's serial; with an embedded certificate the response must verify under it and, iff issuer != nil,
// the embedded certificate must be signed by issuer; without one the response must verify under issuer
// iff issuer != nil. The OCSPSigning EKU is NOT checked. Serial is compared only when cert != nil.
func modelParse(b []byte, cert, issuer *x509.Certificate) (*xocsp.Response, error) {
	r := respOf(b)
	if r == nil || !r.wellFormed {
		return nil, verifrt.NewError("asn1: structure error")
	}
	if !r.successful {
		return nil, verifrt.NewError("ocsp: error from server")
	}
	if cert == nil && r.nResponses != 1 {
		return nil, verifrt.NewError("OCSP response contains bad number of responses")
	}
	if cert != nil && cert.SerialNumber.Cmp(r.serial) != 0 {
		return nil, verifrt.NewError("no response matching the supplied certificate")
	}
	if r.hasEmbedded {
		if r.signedBy != byEmbedded {
			return nil, verifrt.NewError("bad signature on embedded certificate")
		}
		if issuer != nil && (r.embeddedIssuedBy < 0 || r.embeddedIssuedBy != candIdx(issuer)) {
			return nil, verifrt.NewError("bad OCSP signature")
		}
	} else if issuer != nil {
		if r.signedBy != byIssuer || r.signerIdx != candIdx(issuer) {
			return nil, verifrt.NewError("bad OCSP signature")
		}
	}
	if r.obj == nil {
		r.obj = &xocsp.Response{Status: r.status, SerialNumber: r.serial, NextUpdate: r.nextUpdate}
		if r.hasEmbedded {
			r.obj.Certificate = &x509.Certificate{}
			if r.embeddedEKU {
				r.obj.Certificate.ExtKeyUsage = []x509.ExtKeyUsage{x509.ExtKeyUsageOCSPSigning}
			} else if r.otherEKU {
				// some other purpose: every value of the enumeration except OCSPSigning (ExtKeyUsageAny = 0 included)
				u := x509.ExtKeyUsage(verifrt.NondetInt("otherEKU"))
				verifrt.Assume(u >= x509.ExtKeyUsageAny)
				verifrt.Assume(u <= x509.ExtKeyUsageMicrosoftKernelCodeSigning)
				verifrt.Assume(u != x509.ExtKeyUsageOCSPSigning)
				r.obj.Certificate.ExtKeyUsage = []x509.ExtKeyUsage{u}
			}
		}
	}
	return r.obj, nil
}

// authentic: the statement's definition, independent of how the code checks it
func (r *modelResp) authentic(presented *big.Int) bool {
	if !r.wellFormed || !r.successful || r.serial.Cmp(presented) != 0 {
		return false
	}
	if r.hasEmbedded {
		return r.signedBy == byEmbedded && r.embeddedIssuedBy >= 0 && r.embeddedEKU
	}
	return r.signedBy == byIssuer
}

// ---- cache2go model (read from cachetable.go / cacheitem.go) ----
// item alive at t iff lifeSpan == 0 or t - accessedOn < lifeSpan; an expired item may still be handed out
// (the expiry timer runs in its own goroutine, with arbitrary latency); a hit sets accessedOn = now.

type citem struct {
	key        interface{}
	data       interface{}
	lifeSpan   time.Duration
	accessedOn time.Time
	createdOn  time.Time
}

var (
	tables   map[string]*cache2go.CacheTable
	tblItems map[*cache2go.CacheTable][]*citem
	itemOf   map[*cache2go.CacheItem]*citem
	cacheAdds []*citem
)

var lateTimers int

func installCache() {
	lateTimers = verifrt.Param("late", 0) // how many expiry timers may be late on a path
	tables = map[string]*cache2go.CacheTable{}
	tblItems = map[*cache2go.CacheTable][]*citem{}
	itemOf = map[*cache2go.CacheItem]*citem{}
	cacheAdds = nil
	verifrt.Override("github.com/muesli/cache2go.Cache", func(name string) *cache2go.CacheTable {
		t := tables[name]
		if t == nil {
			t = new(cache2go.CacheTable)
			tables[name] = t
		}
		return t
	})
	verifrt.Override("(*github.com/muesli/cache2go.CacheTable).Value", func(t *cache2go.CacheTable, key interface{}, args ...interface{}) (*cache2go.CacheItem, error) {
		now := time.Now()
		for _, it := range tblItems[t] {
			if it.key == key {
				if it.lifeSpan != 0 && now.Sub(it.accessedOn) >= it.lifeSpan {
					// expired: cache2go removes it from a timer goroutine - which may not have run yet
					// (at most once per path: one late timer is enough to expose what relies on prompt expiry)
					if lateTimers == 0 || !verifrt.NondetBool("cache2go_timer_late") {
						continue
					}
					lateTimers--
				}
				it.accessedOn = now
				h := new(cache2go.CacheItem)
				itemOf[h] = it
				return h, nil
			}
		}
		return nil, cache2go.ErrKeyNotFound
	})
	verifrt.Override("(*github.com/muesli/cache2go.CacheTable).Add", func(t *cache2go.CacheTable, key interface{}, lifeSpan time.Duration, data interface{}) *cache2go.CacheItem {
		now := time.Now()
		it := &citem{key: key, data: data, lifeSpan: lifeSpan, accessedOn: now, createdOn: now}
		// replace an existing key
		var keep []*citem
		for _, o := range tblItems[t] {
			if o.key != key {
				keep = append(keep, o)
			}
		}
		tblItems[t] = append(keep, it)
		cacheAdds = append(cacheAdds, it)
		h := new(cache2go.CacheItem)
		itemOf[h] = it
		return h
	})
	verifrt.Override("(*github.com/muesli/cache2go.CacheTable).Delete", func(t *cache2go.CacheTable, key interface{}) (*cache2go.CacheItem, error) {
		var keep []*citem
		found := false
		for _, o := range tblItems[t] {
			if o.key != key {
				keep = append(keep, o)
			} else {
				found = true
			}
		}
		tblItems[t] = keep
		if !found {
			return nil, cache2go.ErrKeyNotFound
		}
		return new(cache2go.CacheItem), nil
	})
	verifrt.Override("(*github.com/muesli/cache2go.CacheTable).Flush", func(t *cache2go.CacheTable) { tblItems[t] = nil })
	verifrt.Override("(*github.com/muesli/cache2go.CacheItem).Data", func(i *cache2go.CacheItem) interface{} { return itemOf[i].data })
	// the other accessors of an item handle (cacheitem.go): all read the item the handle stands for
	verifrt.Override("(*github.com/muesli/cache2go.CacheItem).AccessedOn", func(i *cache2go.CacheItem) time.Time { return itemOf[i].accessedOn })
	verifrt.Override("(*github.com/muesli/cache2go.CacheItem).CreatedOn", func(i *cache2go.CacheItem) time.Time { return itemOf[i].createdOn })
	verifrt.Override("(*github.com/muesli/cache2go.CacheItem).LifeSpan", func(i *cache2go.CacheItem) time.Duration { return itemOf[i].lifeSpan })
	verifrt.Override("(*github.com/muesli/cache2go.CacheItem).Key", func(i *cache2go.CacheItem) interface{} { return itemOf[i].key })
	verifrt.Override("(*github.com/muesli/cache2go.CacheItem).KeepAlive", func(i *cache2go.CacheItem) { itemOf[i].accessedOn = time.Now() })
	verifrt.Override("(*github.com/muesli/cache2go.CacheTable).Exists", func(t *cache2go.CacheTable, key interface{}) bool {
		now := time.Now()
		for _, it := range tblItems[t] {
			if it.key == key && !(it.lifeSpan != 0 && now.Sub(it.accessedOn) >= it.lifeSpan) {
				return true
			}
		}
		return false
	})
	verifrt.Override("(*github.com/muesli/cache2go.CacheTable).Count", func(t *cache2go.CacheTable) int { return len(tblItems[t]) })
}

// ---- the modelled network / PKI ----

var (
	subjectOf map[*x509.Certificate]string
	issuerOf  map[*x509.Certificate]string
)

// candSearchFails: the issuer-candidate search itself reports an error (e.g. an AKI form it does not support)
var candSearchFails bool

var (
	reqReader map[*http.Request]io.Reader
	reqURL    map[*http.Request]string
)

func installOCSPWorld(ncand int) {
	candSearchFails = false
	resps, httpLog = nil, nil
	httpScript = map[string]int{}
	candidates = nil
	subjectOf = map[*x509.Certificate]string{}
	issuerOf = map[*x509.Certificate]string{}
	for i := 0; i < ncand; i++ {
		candidates = append(candidates, &x509.Certificate{})
	}
	installCache()
	verifrt.InstallSyncMap()
	verifrt.Override("golang.org/x/crypto/ocsp.ParseResponse", func(b []byte, issuer *x509.Certificate) (*xocsp.Response, error) {
		return modelParse(b, nil, issuer)
	})
	verifrt.Override("golang.org/x/crypto/ocsp.ParseResponseForCert", modelParse)
	// The network is modelled at the HTTP client, below the code under test: the real request construction
	// and response reading run. A request is the two bytes naming the issuer candidate it was built for; the
	// responder answers only a request it can decode (a drained or missing body is answered "malformed").
	reqReader = map[*http.Request]io.Reader{}
	reqURL = map[*http.Request]string{}
	verifrt.Override("golang.org/x/crypto/ocsp.CreateRequest", func(cert, issuer *x509.Certificate, opts *xocsp.RequestOptions) ([]byte, error) {
		return []byte{0xC0, byte(candIdx(issuer))}, nil
	})
	verifrt.OverrideIfPresent("net/http.NewRequest", func(method, u string, b io.Reader) (*http.Request, error) {
		r := &http.Request{Method: method, Header: http.Header{}}
		reqReader[r], reqURL[r] = b, u
		return r, nil
	})
	verifrt.OverrideIfPresent("net/url.Parse", func(raw string) (*url.URL, error) { return &url.URL{Host: "ocsp.example.com"}, nil })
	verifrt.OverrideIfPresent("(net/http.Header).Add", func(h http.Header, k, v string) {})
	verifrt.OverrideIfPresent("(net/http.Header).Set", func(h http.Header, k, v string) {})
	verifrt.OverrideIfPresent("(*net/http.Client).Do", func(c *http.Client, r *http.Request) (*http.Response, error) {
		server := reqURL[r]
		var data []byte
		if rd := reqReader[r]; rd != nil {
			data, _ = io.ReadAll(rd) // the transport consumes the body it was given
		}
		httpLog = append(httpLog, server)
		if len(data) != 2 || data[0] != 0xC0 {
			// the responder cannot decode the request: malformedRequest (an unsuccessful, unsigned answer)
			return &http.Response{StatusCode: 200, ContentLength: 2, Body: &bodyModel{data: []byte{0xBA, 0xD0}}}, nil
		}
		k := server + "|" + string(rune('0'+int(data[1])))
		v := httpScript[k]
		if v == 0 {
			return nil, verifrt.NewError("connection refused")
		}
		if v < 0 {
			return &http.Response{StatusCode: 200, ContentLength: 0, Body: &bodyModel{}}, nil
		}
		return &http.Response{StatusCode: 200, ContentLength: 2, Body: &bodyModel{data: respBytes(v - 1)}}, nil
	})
	verifrt.Override(modRoot+"/core.FindCertificateIssuerCandidates", func(issuer *pkix.RDNSequence, ext *[]pkix.Extension, alg x509.PublicKeyAlgorithm, chains *core.CertificateChains) ([]*core.CertificateChainEntry, error) {
		if candSearchFails {
			return nil, verifrt.NewError("unsupported Authority Key Identifier combination")
		}
		var out []*core.CertificateChainEntry
		for _, c := range candidates {
			out = append(out, &core.CertificateChainEntry{Certificate: c})
		}
		return out, nil
	})
	verifrt.Override(modRoot+"/core/asn1parser.ParseSubjectRDNSequence", func(c *x509.Certificate) (*pkix.RDNSequence, error) { return rdn(subjectOf[c]), nil })
	verifrt.Override(modRoot+"/core/asn1parser.ParseIssuerRDNSequence", func(c *x509.Certificate) (*pkix.RDNSequence, error) { return rdn(issuerOf[c]), nil })
	verifrt.Override("(crypto/x509/pkix.RDNSequence).String", func(r pkix.RDNSequence) string {
		if len(r) == 0 || len(r[0]) == 0 {
			return ""
		}
		return r[0][0].Value.(string)
	})
	verifrt.Override("(crypto/x509/pkix.Name).String", func(n pkix.Name) string { return "name" })
}

func rdn(token string) *pkix.RDNSequence {
	r := pkix.RDNSequence{pkix.RelativeDistinguishedNameSET{pkix.AttributeTypeAndValue{Value: token}}}
	return &r
}

func clientCert(subject, issuer string, serial *big.Int, servers ...string) *x509.Certificate {
	c := &x509.Certificate{SerialNumber: serial, OCSPServer: servers}
	subjectOf[c], issuerOf[c] = subject, issuer
	return c
}

func newOCSPChecker(strict bool, def time.Duration) *OCSPRevocationChecker {
	c := &OCSPRevocationChecker{}
	_ = c.Provision(&config.OCSPConfig{OCSPAIAStrict: strict, DefaultCacheDurationParsed: def}, nil)
	return c
}

// symbolic response: every attribute is a free choice
func symResp(presented *big.Int, other *big.Int, ncand int) *modelResp {
	r := &modelResp{wellFormed: true, successful: true, nResponses: 1}
	switch verifrt.Choose(3) {
	case 1:
		r.wellFormed = false
	case 2:
		r.successful = false
	}
	r.hasEmbedded = verifrt.Choose(2) == 1
	r.signedBy = verifrt.Choose(3)
	r.signerIdx = verifrt.Choose(ncand)
	r.embeddedIssuedBy = verifrt.Choose(ncand+1) - 1
	r.embeddedEKU = verifrt.Choose(2) == 1
	if r.hasEmbedded && !r.embeddedEKU {
		r.otherEKU = verifrt.Choose(2) == 1
	}
	r.serial = presented
	if verifrt.Choose(2) == 1 {
		r.serial = other
	}
	r.status = verifrt.Choose(3) // Good=0 Revoked=1 Unknown=2
	resps = append(resps, r)
	return r
}

// bodyModel: a response body delivered in pieces of at most chunk bytes (0 = as asked)
type bodyModel struct {
	data   []byte
	pos    int
	chunk  int
	closed bool
}

func (b *bodyModel) Read(p []byte) (int, error) {
	if len(p) == 0 {
		return 0, nil
	}
	rem := len(b.data) - b.pos
	if rem <= 0 {
		return 0, io.EOF
	}
	k := len(p)
	if k > rem {
		k = rem
	}
	if b.chunk > 0 && k > b.chunk {
		k = b.chunk
	}
	copy(p[:k], b.data[b.pos:b.pos+k])
	b.pos += k
	return k, nil
}
func (b *bodyModel) Close() error { b.closed = true; return nil }

