package ocsp

import (
	"time"

	xocsp "golang.org/x/crypto/ocsp"

	"github.com/gr33nbl00d/caddy-revocation-validator/zz_verif/verifrt"
)

var serverPool = []string{"http://a", "https://b", "HTTP://C", "ldap://d", "ftp://e"}

func isHTTP(s string) bool {
	return s == "http://a" || s == "https://b" || s == "HTTP://C"
}

// VerifC02_Responders: responder lists of 0..R URLs with arbitrary schemes, per (responder,
// candidate) behaviour in {transport error, empty body, unauthentic/garbage answer, authentic
// good / revoked / unknown}, strict on/off, cache miss.
//   S      : the first authentic answer in (responder, candidate) order decides; if it says revoked
//            the result is Revoked
//   strict : >=1 HTTP responder and no authentic answer => error; an authentic answer => no strictness error
//   lenient: no authentic answer => (not revoked, nil)
//   non-HTTP responders are never contacted; no HTTP responder => never an error
func VerifC02_Responders() {
	// 0 candidates: the issuer of the certificate is not found among the chain / trusted responder
	// certificates (or the search fails) - then no answer can be authenticated
	ncand := verifrt.Choose(verifrt.Param("cands", 2) + 1)
	installOCSPWorld(ncand)
	if ncand == 0 {
		candSearchFails = verifrt.Choose(2) == 1
		verifrt.Reach("no-issuer-candidate")
	}
	presented, other := sym("presented"), sym("other")
	verifrt.Assume(presented.Cmp(other) != 0)
	strict := verifrt.Choose(2) == 1
	c := newOCSPChecker(strict, 0)
	R := verifrt.Param("R", 2)
	n := verifrt.Choose(R + 1)
	var servers []string
	for i := 0; i < n; i++ {
		servers = append(servers, serverPool[verifrt.Choose(len(serverPool))])
	}
	cert := clientCert("CN=client", "CN=CA", presented, servers...)
	// behaviours
	firstAuthentic := -1
	firstStatus := 0
	nHTTP := 0
	seen := map[string]bool{}
	for _, s := range servers {
		if !isHTTP(s) {
			continue
		}
		nHTTP++
		if seen[s] {
			continue
		}
		seen[s] = true
		for k := 0; k < ncand; k++ {
			beh := verifrt.Choose(6) // 0 transport error, 1 empty, 2 unauthentic good, 3 authentic good, 4 authentic revoked, 5 authentic unknown
			key := s + "|" + string(rune('0'+k))
			switch beh {
			case 0:
				httpScript[key] = 0
			case 1:
				httpScript[key] = -1
			default:
				r := &modelResp{wellFormed: true, successful: true, nResponses: 1, serial: presented, signedBy: byIssuer, signerIdx: verifrt.Choose(ncand)}
				switch beh {
				case 2:
					r.signedBy = byStranger
					r.status = xocsp.Good
				case 3:
					r.status = xocsp.Good
				case 4:
					r.status = xocsp.Revoked
				case 5:
					r.status = xocsp.Unknown
				}
				resps = append(resps, r)
				httpScript[key] = len(resps)
			}
		}
	}
	// reference: first authentic answer in iteration order (servers in list order, candidates in order)
	for _, s := range servers {
		if !isHTTP(s) || firstAuthentic >= 0 {
			continue
		}
		for k := 0; k < ncand && firstAuthentic < 0; k++ {
			v := httpScript[s+"|"+string(rune('0'+k))]
			if v > 0 && resps[v-1].authentic(presented) {
				firstAuthentic = v - 1
				firstStatus = resps[v-1].status
			}
		}
	}
	st, err := c.IsRevoked(cert, nil)
	for _, s := range httpLog {
		verifrt.Assert(isHTTP(s), "only HTTP responders are contacted")
	}
	if nHTTP == 0 {
		verifrt.Reach("no-http-responder")
		verifrt.Assert(err == nil && st != nil && !st.Revoked, "no HTTP responder: never an error")
		return
	}
	if firstAuthentic >= 0 {
		verifrt.Reach("authentic-answer")
		verifrt.Assert(err == nil, "an authentic answer never causes a strictness error")
		if err == nil {
			verifrt.Assert(st.Revoked == (firstStatus == xocsp.Revoked), "the first authentic answer decides")
		}
		return
	}
	verifrt.Reach("no-authentic-answer")
	if strict {
		verifrt.Assert(err != nil, "strict: no authentic answer from any HTTP responder is an error")
	} else {
		verifrt.Assert(err == nil && st != nil && !st.Revoked, "lenient: responder unavailability never rejects")
	}
	_ = time.Second
}
