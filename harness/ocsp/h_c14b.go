package ocsp

import (
	"time"

	"github.com/gr33nbl00d/caddy-revocation-validator/zz_verif/verifrt"
)

// VerifC14_Key: two certificates of issuers whose names differ only by trailing digits, with
// arbitrary serials. The first is looked up (answer "good", cached for an hour); if the lookup of the
// second is then served from the cache without contacting its responder, it is the same certificate
// (same issuer and same serial) - for ALL serial pairs.
func VerifC14_Key() {
	installOCSPWorld(1)
	sA, sB := sym("serialA"), sym("serialB")
	verifrt.Assume(sA.Sign() >= 0)
	verifrt.Assume(sB.Sign() >= 0)
	issuers := [][2]string{{"CN=Issuing CA 1", "CN=Issuing CA 12"}, {"CN=CA_1", "CN=CA"}, {"CN=CA", "CN=CA"}}[verifrt.Choose(3)]
	chk := newOCSPChecker(false, 10*time.Minute)
	certA := clientCert("CN=client", issuers[0], sA, "http://ocsp")
	certB := clientCert("CN=client", issuers[1], sB, "http://ocsp")
	verifrt.SetNow(1000)
	r := &modelResp{wellFormed: true, successful: true, nResponses: 1, serial: sA, signedBy: byIssuer, nextUpdate: verifrt.TimeAt(1000 + int64(time.Hour))}
	resps = append(resps, r)
	httpScript["http://ocsp|0"] = 1
	st, err := chk.IsRevoked(certA, nil)
	verifrt.Assert(err == nil && st != nil && st.OcspResponse != nil, "first lookup answered by the responder")
	before := len(httpLog)
	httpScript["http://ocsp|0"] = 0 // the responder of the second certificate is down
	st2, err2 := chk.IsRevoked(certB, nil)
	if len(httpLog) == before && err2 == nil && st2 != nil && st2.OcspResponse != nil {
		verifrt.Reach("served-from-cache")
		verifrt.Assert(issuers[0] == issuers[1] && sA.Cmp(sB) == 0, "a cached status is only served for the same issuer and serial")
	} else {
		verifrt.Reach("not-from-cache")
	}
	verifrt.FreeNow()
}
