package asn1parser

import (
	"bufio"

	"github.com/gr33nbl00d/caddy-revocation-validator/zz_verif/verifrt"
)

// C07 (parser totality) on the exported primitive readers: for EVERY byte string of length <= N
// behind the real bufio.Reader: no panic, every allocation <= len(input)+81920+17, terminates.

const structCap = 81920 + 17

func c07Reader() (*bufio.Reader, *symFile, int) {
	N := verifrt.Param("N", 12)
	f, _, n := newInput(N)
	r := bufio.NewReaderSize(f, 16)
	verifrt.AllocBudget(n + structCap)
	verifrt.StepBudget(verifrt.Param("steps", 400000), true)
	return r, f, n
}

func VerifC07_Octet() {
	defer verifrt.CheckAlloc()
	r, _, n := c07Reader()
	out, err := ParseOctetString(r)
	if err == nil {
		verifrt.Reach("octet-ok")
		verifrt.Assert(len(out) <= n, "result backed by input")
	} else {
		verifrt.Reach("octet-err")
	}
}

func VerifC07_BitString() {
	defer verifrt.CheckAlloc()
	r, _, n := c07Reader()
	out, err := ParseBitString(r)
	if err == nil {
		verifrt.Reach("bits-ok")
		verifrt.Assert(len(out.Bytes) < n, "result backed by input")
	} else {
		verifrt.Reach("bits-err")
	}
}

func VerifC07_BigInt() {
	defer verifrt.CheckAlloc()
	r, _, _ := c07Reader()
	_, err := ReadBigInt(r)
	if err == nil {
		verifrt.Reach("bigint-ok")
	}
}

func VerifC07_UtcTime() {
	defer verifrt.CheckAlloc()
	r, _, _ := c07Reader()
	_, err := ReadUtcTime(r)
	if err != nil {
		verifrt.Reach("utc-err")
	}
}

func VerifC07_TagLength() {
	defer verifrt.CheckAlloc()
	r, _, _ := c07Reader()
	off := verifrt.NondetInt("off")
	verifrt.Assume(off >= 0)
	verifrt.Assume(off <= 3)
	tl, err := PeekTagLength(r, off)
	if err == nil {
		verifrt.Reach("peek-ok")
		_ = tl.CalculateTLVLength()
	}
	tl2, err2 := ReadTagLength(r)
	if err2 == nil {
		verifrt.Reach("read-ok")
		_ = CalculateWholeTLVLength(*tl2)
	}
}

func VerifC07_ReadStructHeader() {
	// ReadStruct up to the encoding/asn1 boundary (Unmarshal is the trusted library decoder)
	defer verifrt.CheckAlloc()
	r, _, n := c07Reader()
	tl, err := PeekTagLength(r, 0)
	if err != nil {
		return
	}
	b, err := ReadTVLBytesWithLimit(r, *tl, 81920)
	if err == nil {
		verifrt.Reach("tlv-ok")
		verifrt.Assert(len(b) <= n, "TLV backed by input")
	}
}
