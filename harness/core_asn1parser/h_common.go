package asn1parser

import (
	"io"

	"github.com/gr33nbl00d/caddy-revocation-validator/zz_verif/verifrt"
)

// symFile models an *os.File holding data[0:n]: Read returns 1..len(p) bytes and never (n>0, err).
// With chunked set the size of every read is an arbitrary value in that range.
type symFile struct {
	data    []byte
	n       int
	pos     int
	chunked bool
	reads   int
}

func (f *symFile) Read(p []byte) (int, error) {
	f.reads++
	if len(p) == 0 {
		return 0, nil
	}
	rem := f.n - f.pos
	if rem <= 0 {
		return 0, io.EOF
	}
	k := len(p)
	if k > rem {
		k = rem
	}
	c := k
	if f.chunked && k > 1 {
		c = verifrt.NondetInt("chunk")
		verifrt.Assume(c >= 1)
		verifrt.Assume(c <= k)
	}
	copy(p[:c], f.data[f.pos:f.pos+c])
	f.pos += c
	return c, nil
}

// newInput: an arbitrary byte string of arbitrary length 0..N.
func newInput(N int) (*symFile, []byte, int) {
	n := verifrt.NondetInt("n")
	verifrt.Assume(n >= 0)
	verifrt.Assume(n <= N)
	buf := verifrt.NondetBytes("buf", N)
	return &symFile{data: buf, n: n}, buf, n
}
