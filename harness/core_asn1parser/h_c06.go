package asn1parser

import (
	"bufio"

	"github.com/gr33nbl00d/caddy-revocation-validator/zz_verif/verifrt"
)

// reference DER header decoder (independent of the code under test): returns (tag, length,
// header size, ok) for length-of-length 0..4
func refHeader(b []byte, n int) (tag byte, length int64, hdr int, ok bool) {
	if n < 2 {
		return 0, 0, 0, false
	}
	tag = b[0]
	l0 := b[1]
	if l0&0x80 == 0 {
		return tag, int64(l0), 2, true
	}
	k := int(l0 & 0x7f)
	if k < 1 || k > 4 || n < 2+k {
		return 0, 0, 0, false
	}
	for i := 0; i < k; i++ {
		length = length<<8 | int64(b[2+i])
	}
	return tag, length, 2 + k, true
}

// VerifC06_TLVReference: ReadTagLength / PeekTagLength(off) / ReadExpectedBytes agree with the
// reference decoder on every buffer of length <= N, for every chunking of the underlying reads
// when `chunked` is set; peeking leaves the stream untouched, reading consumes exactly the header.
func VerifC06_TLVReference() {
	N := verifrt.Param("N", 8)
	f, buf, n := newInput(N)
	f.chunked = verifrt.Param("chunked", 0) == 1
	r := bufio.NewReaderSize(f, 16)
	tag, length, hdr, ok := refHeader(buf, n)
	// peek first: must not consume
	ptl, perr := PeekTagLength(r, 0)
	tl, err := ReadTagLength(r)
	if !ok {
		long := n >= 2 && buf[1]&0x80 != 0
		k := 0
		if long {
			k = int(buf[1] & 0x7f)
		}
		if n < 2 || (long && k >= 1 && k <= 4) {
			// truncated header inside the profile: must be an error
			verifrt.Reach("truncated")
			verifrt.Assert(err != nil, "truncated header is an error")
		}
		return
	}
	verifrt.Reach("header-ok")
	verifrt.Assert(err == nil && perr == nil, "a complete header parses (read and peek)")
	if err != nil || perr != nil {
		return
	}
	verifrt.Assert(byte(tl.Tag) == tag && byte(ptl.Tag) == tag, "tag")
	verifrt.Assert(tl.Length.Length.Int64() == length && ptl.Length.Length.Int64() == length, "length value")
	verifrt.Assert(tl.Length.LengthSize == hdr-1 && ptl.Length.LengthSize == hdr-1, "size of the length field")
	verifrt.Assert(CalculateWholeTLVLength(*tl) == int(length)+hdr, "whole TLV length")
	verifrt.Assert(tl.CalculateTLVLength().Int64() == length+int64(hdr), "TLV length (big)")
	verifrt.Assert(tl.CalculateTLLength().Int64() == int64(hdr), "TL length")
	// the next byte read is the first value byte: the header was consumed exactly, the peek consumed nothing
	if n > hdr {
		b, e := ReadExpectedBytes(r, 1)
		verifrt.Assert(e == nil && b[0] == buf[hdr], "read consumed exactly the header; peek consumed nothing")
	}
}

// VerifC06_PeekWindow: a header that straddles the refill boundary of the real bufio.Reader
// (window 16, header starting at offset 14..15) is peeked and read like any other.
func VerifC06_PeekWindow() {
	N := 22
	f, buf, n := newInput(N)
	r := bufio.NewReaderSize(f, 16)
	start := 13 + verifrt.Choose(3)
	if _, err := ReadExpectedBytes(r, start); err != nil {
		return
	}
	off := verifrt.Choose(2)
	tag, length, hdr, ok := refHeader(buf[start+off:], n-start-off)
	tl, err := PeekTagLength(r, off)
	if ok && hdr <= 16-off {
		verifrt.Reach("straddling-header")
		verifrt.Assert(err == nil, "header across the window boundary parses")
		if err == nil {
			verifrt.Assert(byte(tl.Tag) == tag && tl.Length.Length.Int64() == length, "peeked header equals reference")
		}
		b, e := ReadExpectedBytes(r, 1)
		verifrt.Assert(e == nil && b[0] == buf[start], "peek did not consume")
	}
}

// VerifC06_Values: value readers return exactly the value bytes of the TLV (reference = the buffer).
func VerifC06_Values() {
	N := verifrt.Param("N", 8)
	f, buf, n := newInput(N)
	r := bufio.NewReaderSize(f, 16)
	tag, length, hdr, ok := refHeader(buf, n)
	which := verifrt.Choose(3)
	switch which {
	case 0:
		out, err := ParseOctetString(r)
		if ok && tag == 0x04 && int(length) <= n-hdr {
			verifrt.Reach("octet")
			verifrt.Assert(err == nil && len(out) == int(length) && verifrt.BytesEqual(out, buf[hdr:hdr+int(length)]), "octet string value = value bytes")
		} else if ok && tag != 0x04 {
			verifrt.Assert(err != nil, "wrong tag rejected")
		}
	case 1:
		out, err := ParseBitString(r)
		if ok && tag == 0x03 && int(length) <= n-hdr && length >= 2 && buf[hdr] == 0 {
			verifrt.Reach("bitstring")
			verifrt.Assert(err == nil && out != nil, "bit string without padding parses")
			if err == nil {
				verifrt.Assert(verifrt.BytesEqual(out.Bytes, buf[hdr+1:hdr+int(length)]) && out.BitLength == 8*(int(length)-1), "bit string value")
			}
		}
	case 2:
		out, err := ReadBigInt(r)
		if ok && tag == 0x02 && int(length) <= n-hdr && length >= 1 && length <= 4 {
			verifrt.Reach("integer")
			verifrt.Assert(err == nil, "integer parses")
			if err == nil {
				var ref int64
				for i := 0; i < int(length); i++ {
					ref = ref<<8 | int64(buf[hdr+i])
				}
				verifrt.Assert(out.Int64() == ref, "integer value (unsigned big-endian, as the store key uses it)")
			}
		}
	}
}

// VerifC06_UtcCentury: ParseUTCTime on every well-formed 13-byte "YYMMDDHHMMSSZ" value (all 100 two-digit years,
// months 01-12, days 01-28, every time of day): the value is accepted and the calendar year handed on is the one
// the profile (RFC 5280 4.1.2.5.1) defines - YY >= 50 means 19YY, YY < 50 means 20YY - which is also what the
// reference decoder of the whole document (crypto/x509) yields.
// Environment: time.Parse is modelled by its documented two-digit-year rule (>= 69: 19yy, else 20yy), succeeding
// or failing arbitrarily; Format arbitrary; AddDate(whole years) moves the year by that many. A counterexample is
// replayed against the real time package.
func VerifC06_UtcCentury() {
	b := make([]byte, 13)
	two := func(i int, lo, hi int) int {
		b[i], b[i+1] = verifrt.NondetU8("utc"), verifrt.NondetU8("utc")
		verifrt.Assume(b[i] >= '0' && b[i] <= '9')
		verifrt.Assume(b[i+1] >= '0' && b[i+1] <= '9')
		v := int(b[i]-'0')*10 + int(b[i+1]-'0')
		verifrt.Assume(v >= lo && v <= hi)
		return v
	}
	yy := two(0, 0, 99)
	two(2, 1, 12)
	two(4, 1, 28)
	two(6, 0, 23)
	two(8, 0, 59)
	two(10, 0, 59)
	b[12] = 'Z'
	t, err := ParseUTCTime(b)
	if err != nil {
		// only the environment model refuses a well-formed value (the real time package accepts all of them)
		verifrt.Reach("utc-rejected")
		return
	}
	verifrt.Reach("utc-accepted")
	want := 2000 + yy
	if yy >= 50 {
		want = 1900 + yy
	}
	verifrt.Assert(t != nil && t.Year() == want, "ParseUTCTime yields the RFC 5280 century: YY>=50 -> 19YY, YY<50 -> 20YY")
}
