package asn1parser

import (
	"bufio"
	"bytes"
	"math/big"

	"github.com/gr33nbl00d/caddy-revocation-validator/zz_verif/verifrt"
	asn1crypto "golang.org/x/crypto/cryptobyte/asn1"
)

// VerifSelfTest: translator validation. The repository's own test vectors (asn1parser_test.go)
// are pushed through the symbolic executor in concrete mode; the expected values are the ones the
// repository's tests assert natively. A wrong lowering of an SSA instruction or a wrong library
// stub shows up here as a failed (concrete) assertion.
func VerifSelfTest() {
	// TestReadLengthTwoByte: 81 A3 -> length 163, size 2
	l, err := ReadLength(bufio.NewReader(bytes.NewReader([]byte{0x81, 0xA3})))
	verifrt.Assert(err == nil && l.LengthSize == 2 && l.Length.Cmp(big.NewInt(163)) == 0, "TestReadLengthTwoByte")
	// TestReadLengthOneByte: 05 -> 5, size 1
	l, err = ReadLength(bufio.NewReader(bytes.NewReader([]byte{0x05})))
	verifrt.Assert(err == nil && l.LengthSize == 1 && l.Length.Int64() == 5, "TestReadLengthOneByte")
	// TestParseBitString: 03 05 00 41 42 43 44 -> "ABCD", 32 bits
	bs, err := ParseBitString(bufio.NewReader(bytes.NewReader([]byte{0x03, 0x05, 0x00, 0x41, 0x42, 0x43, 0x44})))
	verifrt.Assert(err == nil && bs.BitLength == 32 && string(bs.Bytes) == "ABCD", "TestParseBitString")
	// TestParseBitStringWithBitLengthNotAMultipleOf8: 03 04 06 6e 5d c0 -> 18 bits
	bs, err = ParseBitString(bufio.NewReader(bytes.NewReader([]byte{0x03, 0x04, 0x06, 0x6e, 0x5d, 0xc0})))
	verifrt.Assert(err == nil && bs.BitLength == 18 && len(bs.Bytes) == 3 && bs.Bytes[2] == 0xc0, "TestParseBitStringWithBitLengthNotAMultipleOf8")
	// TestParseBitStringWithNoneZeroPaddingBits: 03 04 06 6e 5d e0 -> error
	_, err = ParseBitString(bufio.NewReader(bytes.NewReader([]byte{0x03, 0x04, 0x06, 0x6e, 0x5d, 0xe0})))
	verifrt.Assert(err != nil, "TestParseBitStringWithNoneZeroPaddingBits")
	// TestCalculateWholeTLVLength: length 5, size 2 -> 8
	var five big.Int
	five.SetUint64(5)
	tl := TagLength{Tag: asn1crypto.OCTET_STRING, Length: Length{Length: five, LengthSize: 2}}
	verifrt.Assert(CalculateWholeTLVLength(tl) == 8, "TestCalculateWholeTLVLength")
	verifrt.Assert(tl.CalculateTLVLength().Int64() == 8 && tl.CalculateTLLength().Int64() == 3 && tl.CalculateValueLength().Int64() == 5, "TestTagLength_Calculate*")
	// TestParseOctetString: 04 03 01 02 03
	os, err := ParseOctetString(bufio.NewReader(bytes.NewReader([]byte{0x04, 0x03, 0x01, 0x02, 0x03})))
	verifrt.Assert(err == nil && len(os) == 3 && os[0] == 1 && os[2] == 3, "TestParseOctetString")
	// TestPeekTagLengthWithOffset: skip one byte
	ptl, err := PeekTagLength(bufio.NewReader(bytes.NewReader([]byte{0xff, 0x30, 0x82, 0x01, 0x02})), 1)
	verifrt.Assert(err == nil && ptl.Tag == asn1crypto.SEQUENCE && ptl.Length.Length.Int64() == 0x102 && ptl.Length.LengthSize == 3, "TestPeekTagLengthWithOffset")
	// TestReadBigInt: 02 02 01 00 -> 256
	bi, err := ReadBigInt(bufio.NewReader(bytes.NewReader([]byte{0x02, 0x02, 0x01, 0x00})))
	verifrt.Assert(err == nil && bi.Int64() == 256, "TestReadBigInt")
	// context specific tags
	verifrt.Assert(IsContextSpecificTagWithId(0, &TagLength{Tag: 0xa0}) && !IsContextSpecificTagWithId(1, &TagLength{Tag: 0xa0}) && !IsContextSpecificTag(&TagLength{Tag: 0x30}), "TestIsContextSpecificTagWithId")
	verifrt.Reach("selftest")
}
