package revocation

import (
	"github.com/gr33nbl00d/caddy-revocation-validator/config"
	"crypto/x509"

	"github.com/gr33nbl00d/caddy-revocation-validator/zz_verif/verifrt"
)

const pemBody = "MIIBszCCAVmgAwIBAgIUZm9vYmFyYmF6cXV4MDEyMzQ1Njc4OTAKBggqhkjOPQQD\nAjAvMQswCQYDVQQGEwJERTEgMB4GA1UEAwwXVmVyaWYgVGVzdCBTaWduaW5nIENB\n"

// VerifC19_CertFile: a trusted certificate file (crl signer / OCSP responder) is accepted in every
// form a PEM file takes in practice - the block at byte 0, after a blank line, after a comment, after
// the "Bag Attributes" header of a pkcs12 export, after the text dump of `openssl x509 -text`, with LF
// or CRLF line ends - and yields the certificate inside the block; a file without a block is rejected.
// (The real encoding/pem decoder runs; x509.ParseCertificate is a model keyed by the decoded bytes.)
func VerifC19_CertFile() {
	eol := []string{"\n", "\r\n"}[verifrt.Choose(2)]
	prefixes := []string{"", eol, "# signing ca 2026" + eol, "Bag Attributes" + eol + "    localKeyID: 01 00 00 00 " + eol + "subject=CN = Verif Test Signing CA" + eol,
		"Certificate:" + eol + "    Data:" + eol + "        Version: 3 (0x2)" + eol + "    Signature Algorithm: ecdsa-with-SHA256" + eol}
	pi := verifrt.Choose(len(prefixes) + 1)
	var text string
	hasBlock := pi < len(prefixes)
	if hasBlock {
		body := pemBody
		if eol == "\r\n" {
			body = "MIIBszCCAVmgAwIBAgIUZm9vYmFyYmF6cXV4MDEyMzQ1Njc4OTAKBggqhkjOPQQD\r\nAjAvMQswCQYDVQQGEwJERTEgMB4GA1UEAwwXVmVyaWYgVGVzdCBTaWduaW5nIENB\r\n"
		}
		text = prefixes[pi] + "-----BEGIN CERTIFICATE-----" + eol + body + "-----END CERTIFICATE-----" + eol
	} else {
		text = "this file holds no certificate" + eol
	}
	want := &x509.Certificate{}
	var seen []byte
	verifrt.Override("os.ReadFile", func(name string) ([]byte, error) { return []byte(text), nil })
	verifrt.Override("crypto/x509.ParseCertificate", func(der []byte) (*x509.Certificate, error) {
		seen = der
		if len(der) == 96 && der[0] == 0x30 && der[1] == 0x82 {
			return want, nil
		}
		return nil, verifrt.NewError("x509: malformed certificate")
	})
	got, err := parseCertFromFile("/etc/pki/signer.pem")
	if !hasBlock {
		verifrt.Reach("no-block")
		verifrt.Assert(err != nil && got == nil, "a file without a certificate block is rejected")
		return
	}
	verifrt.Reach("block")
	verifrt.Assert(err == nil && got == want, "the certificate inside the PEM block is loaded whatever precedes the block")
	_ = seen
}

// VerifC19_CertLists: n = 0..3 trusted CRL-signer files and m = 0..3 trusted OCSP-responder files are configured
// (the same list twice in a row: a configuration is parsed again on reload). Every file's certificate ends up
// in the effective configuration, once, in the order written; an unreadable file fails the configuration.
func VerifC19_CertLists() {
	names := []string{"/etc/pki/a.pem", "/etc/pki/b.pem", "/etc/pki/c.pem"}
	certs := map[string]*x509.Certificate{}
	for _, n := range names {
		certs[n] = &x509.Certificate{}
	}
	bad := -1
	if verifrt.Choose(2) == 1 {
		bad = verifrt.Choose(3)
	}
	verifrt.Override(modRoot+".parseCertFromFile", func(f string) (*x509.Certificate, error) {
		if bad >= 0 && f == names[bad] {
			return nil, verifrt.NewError("no CERTIFICATE pem block found")
		}
		return certs[f], nil
	})
	n := verifrt.Choose(4)
	crlCfg := &config.CRLConfig{TrustedSignatureCertsFiles: names[:n]}
	ocspCfg := &config.OCSPConfig{TrustedResponderCertsFiles: names[:n]}
	e1 := parseTrustedCrlSignerCerts(crlCfg)
	e2 := parseTrustedOcspResponderCerts(ocspCfg)
	if verifrt.Choose(2) == 1 && e1 == nil && e2 == nil {
		// parsed a second time (reload of the same configuration object)
		e1 = parseTrustedCrlSignerCerts(crlCfg)
		e2 = parseTrustedOcspResponderCerts(ocspCfg)
	}
	if bad >= 0 && bad < n {
		verifrt.Reach("unreadable-file")
		verifrt.Assert(e1 != nil && e2 != nil, "a trusted certificate file that cannot be loaded fails the configuration")
		return
	}
	verifrt.Reach("cert-lists")
	verifrt.Assert(e1 == nil && e2 == nil, "readable trusted certificate files parse")
	verifrt.Assert(len(crlCfg.TrustedSignatureCerts) == n && len(ocspCfg.TrustedResponderCerts) == n, "one trusted certificate per configured file (none lost, none doubled)")
	if len(crlCfg.TrustedSignatureCerts) == n && len(ocspCfg.TrustedResponderCerts) == n {
		for i := 0; i < n; i++ {
			verifrt.Assert(crlCfg.TrustedSignatureCerts[i] == certs[names[i]], "trusted CRL signers in the order of the files")
			verifrt.Assert(ocspCfg.TrustedResponderCerts[i] == certs[names[i]], "trusted OCSP responders in the order of the files")
		}
	}
}
