package revocation

import (
	"crypto/x509"

	"github.com/gr33nbl00d/caddy-revocation-validator/zz_verif/verifrt"
)

const pemBody = "MIIBszCCAVmgAwIBAgIUZm9vYmFyYmF6cXV4MDEyMzQ1Njc4OTAKBggqhkjOPQQD\nAjAvMQswCQYDVQQGEwJERTEgMB4GA1UEAwwXVmVyaWYgVGVzdCBTaWduaW5nIENB\n"

// VerifC19_CertFile: a trusted certificate file (crl signer / OCSP responder) is accepted in every
// form a PEM file takes in practice - the block at byte 0, after a blank line, after a comment, after
// the "Bag Attributes" header of a pkcs12 export, after the text dump of `openssl x509 -text`, with LF
// or CRLF line ends - and yields the certificate inside the block; a file without a block is rejected.
// (The real encoding/pem decoder runs; x509.ParseCertificate is a model keyed by the decoded bytes.)
func VerifC19_CertFile() {
	eol := []string{"\n", "\r\n"}[verifrt.Choose(2)]
	prefixes := []string{"", eol, "# signing ca 2026" + eol, "Bag Attributes" + eol + "    localKeyID: 01 00 00 00 " + eol + "subject=CN = Verif Test Signing CA" + eol,
		"Certificate:" + eol + "    Data:" + eol + "        Version: 3 (0x2)" + eol + "    Signature Algorithm: ecdsa-with-SHA256" + eol}
	pi := verifrt.Choose(len(prefixes) + 1)
	var text string
	hasBlock := pi < len(prefixes)
	if hasBlock {
		body := pemBody
		if eol == "\r\n" {
			body = "MIIBszCCAVmgAwIBAgIUZm9vYmFyYmF6cXV4MDEyMzQ1Njc4OTAKBggqhkjOPQQD\r\nAjAvMQswCQYDVQQGEwJERTEgMB4GA1UEAwwXVmVyaWYgVGVzdCBTaWduaW5nIENB\r\n"
		}
		text = prefixes[pi] + "-----BEGIN CERTIFICATE-----" + eol + body + "-----END CERTIFICATE-----" + eol
	} else {
		text = "this file holds no certificate" + eol
	}
	want := &x509.Certificate{}
	var seen []byte
	verifrt.Override("os.ReadFile", func(name string) ([]byte, error) { return []byte(text), nil })
	verifrt.Override("crypto/x509.ParseCertificate", func(der []byte) (*x509.Certificate, error) {
		seen = der
		if len(der) == 96 && der[0] == 0x30 && der[1] == 0x82 {
			return want, nil
		}
		return nil, verifrt.NewError("x509: malformed certificate")
	})
	got, err := parseCertFromFile("/etc/pki/signer.pem")
	if !hasBlock {
		verifrt.Reach("no-block")
		verifrt.Assert(err != nil && got == nil, "a file without a certificate block is rejected")
		return
	}
	verifrt.Reach("block")
	verifrt.Assert(err == nil && got == want, "the certificate inside the PEM block is loaded whatever precedes the block")
	_ = seen
}
