package revocation

import (
	"github.com/gr33nbl00d/caddy-revocation-validator/config"
	"github.com/gr33nbl00d/caddy-revocation-validator/zz_verif/verifrt"
)

// VerifC16_ModeString: the signature validation mode string (ANY string) is mapped exactly:
// unset means 'verify', the three documented names mean themselves, everything else is rejected at
// load time - in particular nothing but the literal "none"/"verify_log" can switch verification off.
func VerifC16_ModeString() {
	s := verifrt.NondetString("signature_validation_mode")
	cfg := &config.CRLConfig{SignatureValidationMode: s}
	err := parseSignatureValidationMode(cfg)
	switch {
	case s == "":
		verifrt.Reach("unset")
		verifrt.Assert(err == nil && cfg.SignatureValidationModeParsed == config.SignatureValidationModeVerify, "an unset mode means verify")
	case s == "verify":
		verifrt.Assert(err == nil && cfg.SignatureValidationModeParsed == config.SignatureValidationModeVerify, "verify")
	case s == "verify_log":
		verifrt.Assert(err == nil && cfg.SignatureValidationModeParsed == config.SignatureValidationModeVerifyLog, "verify_log")
	case s == "none":
		verifrt.Assert(err == nil && cfg.SignatureValidationModeParsed == config.SignatureValidationModeNone, "none")
	default:
		verifrt.Reach("other")
		verifrt.Assert(err != nil, "any other mode string is rejected, never read as a lax mode")
	}
	// the zero value of the parsed mode must not be a lax mode either way: a CRLConfig that was never
	// parsed (ParseConfig skipped) is outside the claim, but the full ParseConfig path must set it
	c := &CertRevocationValidator{Mode: "crl_only", CRLConfig: &config.CRLConfig{WorkDir: "/work", SignatureValidationMode: s}}
	if perr := ParseConfig(c); perr == nil {
		want := config.SignatureValidationModeVerify
		if s == "none" {
			want = config.SignatureValidationModeNone
		} else if s == "verify_log" {
			want = config.SignatureValidationModeVerifyLog
		}
		verifrt.Assert(c.CRLConfig.SignatureValidationModeParsed == want, "ParseConfig yields the same mapping")
		verifrt.Reach("parsed")
	}
}
