package revocation

import (
	"github.com/caddyserver/caddy/v2/caddyconfig/caddyfile"
	"github.com/gr33nbl00d/caddy-revocation-validator/zz_verif/verifrt"
)

func tok(text string, line int) caddyfile.Token {
	return caddyfile.Token{File: "Caddyfile", Line: line, Text: text}
}

// argument value: any string that the lexer can produce as a single argument token
func argval(label string) string {
	v := verifrt.NondetString(label)
	verifrt.Assume(v != "{")
	verifrt.Assume(v != "}")
	return v
}

type cfBuilder struct {
	toks []caddyfile.Token
	line int
}

func (b *cfBuilder) kv(k, v string) {
	b.line++
	b.toks = append(b.toks, tok(k, b.line), tok(v, b.line))
}
func (b *cfBuilder) open(k string) {
	b.line++
	b.toks = append(b.toks, tok(k, b.line), tok("{", b.line))
}
func (b *cfBuilder) close() {
	b.line++
	b.toks = append(b.toks, tok("}", b.line))
}

// option indices
const (
	oMode = iota
	oWorkDir
	oStorage
	oInterval
	oSigMode
	oCrlUrl
	oCrlFile
	oTrusted
	oFetch
	oStrict
	oCacheDur
	oResponder
	oAiaStrict
	nOpts
)

// VerifC19_Caddyfile: the Caddyfile adapter (on caddy's real Dispenser) must carry every option
// value into the configuration exactly as the JSON form assigns it, for all argument strings.
func VerifC19_Caddyfile() {
	// which options are present: all, none, or exactly one (15 layouts)
	present := make([]bool, nOpts)
	all := verifrt.Param("allsubsets", 0) == 1
	layout := 2
	if !all {
		layout = verifrt.Choose(nOpts + 2)
	} else {
		// every subset of the options
		for i := 0; i < nOpts; i++ {
			present[i] = verifrt.Choose(2) == 1
		}
	}
	has := func(o int) bool {
		if all {
			return present[o]
		}
		return layout == 0 || layout == o+2
	}
	val := make([]string, nOpts)
	names := []string{"mode", "work_dir", "storage_type", "update_interval", "signature_validation_mode", "crl_url", "crl_file", "trusted_signature_cert_file", "crl_fetch_mode", "crl_cdp_strict", "default_cache_duration", "trusted_responder_cert_file", "ocsp_aia_strict"}
	for i := 0; i < nOpts; i++ {
		if has(i) {
			val[i] = argval(names[i])
		}
	}
	strictB, aiaB := false, false
	if has(oStrict) {
		strictB = verifrt.Choose(2) == 1
		val[oStrict] = "false"
		if strictB {
			val[oStrict] = "true"
		}
	}
	if has(oAiaStrict) {
		aiaB = verifrt.Choose(2) == 1
		val[oAiaStrict] = "false"
		if aiaB {
			val[oAiaStrict] = "true"
		}
	}
	b := &cfBuilder{}
	b.open("revocation")
	if has(oMode) {
		b.kv("mode", val[oMode])
	}
	crlBlock := layout != 1
	if crlBlock {
		b.open("crl_config")
		for _, o := range []int{oWorkDir, oStorage, oInterval, oSigMode, oCrlUrl, oCrlFile, oTrusted} {
			if has(o) {
				b.kv(names[o], val[o])
			}
		}
		if has(oFetch) || has(oStrict) {
			b.open("cdp_config")
			if has(oFetch) {
				b.kv(names[oFetch], val[oFetch])
			}
			if has(oStrict) {
				b.kv(names[oStrict], val[oStrict])
			}
			b.close()
		}
		b.close()
	}
	if has(oCacheDur) || has(oResponder) || has(oAiaStrict) {
		b.open("ocsp_config")
		for _, o := range []int{oCacheDur, oResponder, oAiaStrict} {
			if has(o) {
				b.kv(names[o], val[o])
			}
		}
		b.close()
	}
	b.close()
	cfg, err := parseConfigFromCaddyfile(caddyfile.NewDispenser(b.toks))
	verifrt.Assert(err == nil, "well-formed block parses")
	if err != nil {
		return
	}
	verifrt.Reach("parsed")
	verifrt.Assert(cfg.Mode == val[oMode], "mode")
	verifrt.Assert(cfg.CRLConfig != nil && cfg.OCSPConfig != nil, "sub-configurations exist")
	c := cfg.CRLConfig
	verifrt.Assert(c.WorkDir == val[oWorkDir], "work_dir")
	verifrt.Assert(c.StorageType == val[oStorage], "storage_type")
	verifrt.Assert(c.UpdateInterval == val[oInterval], "update_interval")
	verifrt.Assert(c.SignatureValidationMode == val[oSigMode], "signature_validation_mode")
	if has(oCrlUrl) {
		verifrt.Assert(len(c.CRLUrls) == 1 && c.CRLUrls[0] == val[oCrlUrl], "crl_url")
	} else {
		verifrt.Assert(len(c.CRLUrls) == 0, "no crl_url invented")
	}
	if has(oCrlFile) {
		verifrt.Assert(len(c.CRLFiles) == 1 && c.CRLFiles[0] == val[oCrlFile], "crl_file")
	} else {
		verifrt.Assert(len(c.CRLFiles) == 0, "no crl_file invented")
	}
	if has(oTrusted) {
		verifrt.Assert(len(c.TrustedSignatureCertsFiles) == 1 && c.TrustedSignatureCertsFiles[0] == val[oTrusted], "trusted_signature_cert_file")
	} else {
		verifrt.Assert(len(c.TrustedSignatureCertsFiles) == 0, "no trusted cert invented")
	}
	if has(oFetch) || has(oStrict) {
		verifrt.Assert(c.CDPConfig != nil, "cdp_config exists")
		if c.CDPConfig != nil {
			verifrt.Assert(c.CDPConfig.CRLFetchMode == val[oFetch], "crl_fetch_mode")
			verifrt.Assert(c.CDPConfig.CRLCDPStrict == strictB, "crl_cdp_strict")
		}
	} else if c.CDPConfig != nil {
		verifrt.Assert(c.CDPConfig.CRLFetchMode == "" && !c.CDPConfig.CRLCDPStrict, "cdp defaults")
	}
	o := cfg.OCSPConfig
	verifrt.Assert(o.DefaultCacheDuration == val[oCacheDur], "default_cache_duration")
	if has(oResponder) {
		verifrt.Assert(len(o.TrustedResponderCertsFiles) == 1 && o.TrustedResponderCertsFiles[0] == val[oResponder], "trusted_responder_cert_file")
	} else {
		verifrt.Assert(len(o.TrustedResponderCertsFiles) == 0, "no responder cert invented")
	}
	verifrt.Assert(o.OCSPAIAStrict == aiaB, "ocsp_aia_strict")
}

// VerifC19_Unknown: an unknown key at any nesting level, and a non-boolean strictness value, is an error.
func VerifC19_Unknown() {
	level := verifrt.Choose(6)
	k := verifrt.NondetString("key")
	verifrt.Assume(k != "{")
	verifrt.Assume(k != "}")
	b := &cfBuilder{}
	b.open("revocation")
	switch level {
	case 0:
		verifrt.Assume(k != "mode")
		verifrt.Assume(k != "crl_config")
		verifrt.Assume(k != "ocsp_config")
		b.kv(k, "x")
	case 1:
		for _, n := range []string{"work_dir", "cdp_config", "storage_type", "update_interval", "signature_validation_mode", "crl_url", "crl_file", "trusted_signature_cert_file"} {
			verifrt.Assume(k != n)
		}
		b.open("crl_config")
		b.kv(k, "x")
		b.close()
	case 2:
		verifrt.Assume(k != "crl_fetch_mode")
		verifrt.Assume(k != "crl_cdp_strict")
		b.open("crl_config")
		b.open("cdp_config")
		b.kv(k, "x")
		b.close()
		b.close()
	case 3:
		verifrt.Assume(k != "default_cache_duration")
		verifrt.Assume(k != "trusted_responder_cert_file")
		verifrt.Assume(k != "ocsp_aia_strict")
		b.open("ocsp_config")
		b.kv(k, "x")
		b.close()
	case 4: // crl_cdp_strict with a non-boolean value
		for _, t := range []string{"1", "t", "T", "TRUE", "true", "True", "0", "f", "F", "FALSE", "false", "False"} {
			verifrt.Assume(k != t)
		}
		b.open("crl_config")
		b.open("cdp_config")
		b.kv("crl_cdp_strict", k)
		b.close()
		b.close()
	case 5: // ocsp_aia_strict with a non-boolean value
		for _, t := range []string{"1", "t", "T", "TRUE", "true", "True", "0", "f", "F", "FALSE", "false", "False"} {
			verifrt.Assume(k != t)
		}
		b.open("ocsp_config")
		b.kv("ocsp_aia_strict", k)
		b.close()
	}
	b.close()
	_, err := parseConfigFromCaddyfile(caddyfile.NewDispenser(b.toks))
	verifrt.Reach("unknown-key")
	verifrt.Assert(err != nil, "unknown option name or value is rejected, not ignored")
}
