package revocation

import (
	"time"

	"github.com/caddyserver/caddy/v2/caddyconfig/caddyfile"
	"github.com/gr33nbl00d/caddy-revocation-validator/config"
	"github.com/gr33nbl00d/caddy-revocation-validator/zz_verif/verifrt"
)

func inSet(v string, set ...string) bool {
	for _, s := range set {
		if v == s {
			return true
		}
	}
	return false
}

// VerifC19_Effective: Caddyfile -> UnmarshalCaddyfile -> ParseConfig. For every value of the five
// enumerated options: in-enum (or omitted/empty) values load, validate and yield the documented
// effective settings; any other value is rejected at load time.
func VerifC19_Effective() {
	installMechanisms()
	mode := argval("mode")
	withCRL := verifrt.Choose(2) == 1
	st, svm, fm, ui := "", "", "", ""
	b := &cfBuilder{}
	b.open("revocation")
	hasMode := verifrt.Choose(2) == 1
	if hasMode {
		b.kv("mode", mode)
	} else {
		mode = ""
	}
	if withCRL {
		st, svm, fm = argval("storage_type"), argval("signature_validation_mode"), argval("crl_fetch_mode")
		uiKind := verifrt.Choose(3)
		ui = []string{"", "45m", "bogus"}[uiKind]
		b.open("crl_config")
		b.kv("work_dir", "/work")
		b.kv("storage_type", st)
		b.kv("signature_validation_mode", svm)
		if ui != "" {
			b.kv("update_interval", ui)
		}
		b.open("cdp_config")
		b.kv("crl_fetch_mode", fm)
		b.close()
		b.close()
	}
	b.close()
	c := &CertRevocationValidator{}
	uerr := c.UnmarshalCaddyfile(caddyfile.NewDispenser(b.toks))
	known, _, crlOn := expectations(mode)
	if !known {
		verifrt.Reach("bad-mode")
		if uerr == nil {
			verifrt.Assert(ParseConfig(c) != nil, "unknown mode rejected at load time")
		}
		return
	}
	if crlOn && !withCRL {
		verifrt.Reach("crl-needs-workdir")
		verifrt.Assert(uerr != nil, "CRL checking without work_dir is rejected")
		return
	}
	verifrt.Assert(uerr == nil, "valid Caddyfile loads (modes without CRL checking need no crl_config)")
	if uerr != nil {
		return
	}
	perr := ParseConfig(c)
	if !withCRL {
		verifrt.Reach("no-crl-block")
		verifrt.Assert(perr == nil, "valid configuration parses")
		return
	}
	valid := inSet(st, "", "memory", "disk") && inSet(svm, "", "none", "verify", "verify_log") && inSet(fm, "", "fetch_actively", "fetch_background") && ui != "bogus"
	if !valid {
		verifrt.Reach("bad-enum")
		verifrt.Assert(perr != nil, "value outside an enumeration is rejected, not ignored")
		return
	}
	verifrt.Reach("valid")
	verifrt.Assert(perr == nil, "every in-enum combination parses")
	if perr != nil {
		return
	}
	cc := c.CRLConfig
	if st == "memory" {
		verifrt.Assert(cc.StorageTypeParsed == config.Memory, "memory storage")
	} else {
		verifrt.Assert(cc.StorageTypeParsed == config.Disk, "disk storage is the default")
	}
	switch svm {
	case "none":
		verifrt.Assert(cc.SignatureValidationModeParsed == config.SignatureValidationModeNone, "none")
	case "verify_log":
		verifrt.Assert(cc.SignatureValidationModeParsed == config.SignatureValidationModeVerifyLog, "verify_log")
	default:
		verifrt.Assert(cc.SignatureValidationModeParsed == config.SignatureValidationModeVerify, "verify is the default")
	}
	if fm == "fetch_background" {
		verifrt.Assert(cc.CDPConfig.CRLFetchModeParsed == config.CRLFetchModeBackground, "background")
	} else {
		verifrt.Assert(cc.CDPConfig.CRLFetchModeParsed == config.CRLFetchModeActively, "active fetch is the default")
	}
	if ui == "" {
		verifrt.Assert(cc.UpdateIntervalParsed == 30*time.Minute, "30 minute default interval")
	} else {
		verifrt.Assert(cc.UpdateIntervalParsed == 45*time.Minute, "configured interval")
	}
	verifrt.Assert(!cc.CDPConfig.CRLCDPStrict && !c.OCSPConfig.OCSPAIAStrict, "non-strict defaults")
	verifrt.Assert(c.OCSPConfig.DefaultCacheDurationParsed == 0, "no OCSP caching by default")
	verifrt.Assert(validateConfig(c) == nil, "valid configuration validates")
}
