package revocation

import (
	"time"

	"github.com/caddyserver/caddy/v2/caddyconfig/caddyfile"
	"github.com/gr33nbl00d/caddy-revocation-validator/config"
	"github.com/gr33nbl00d/caddy-revocation-validator/zz_verif/verifrt"
)

func inSet(v string, set ...string) bool {
	for _, s := range set {
		if v == s {
			return true
		}
	}
	return false
}

// VerifC19_Effective: Caddyfile -> UnmarshalCaddyfile -> ParseConfig. For every value of the five
// enumerated options: in-enum (or omitted/empty) values load, validate and yield the documented
// effective settings; any other value is rejected at load time.
func VerifC19_Effective() {
	installMechanisms()
	mode := argval("mode")
	withCRL := verifrt.Choose(2) == 1
	st, svm, fm, ui := "", "", "", ""
	b := &cfBuilder{}
	b.open("revocation")
	hasMode := verifrt.Choose(2) == 1
	if hasMode {
		b.kv("mode", mode)
	} else {
		mode = ""
	}
	if withCRL {
		st, svm, fm = argval("storage_type"), argval("signature_validation_mode"), argval("crl_fetch_mode")
		uiKind := verifrt.Choose(3)
		ui = []string{"", "45m", "bogus"}[uiKind]
		b.open("crl_config")
		b.kv("work_dir", "/work")
		b.kv("storage_type", st)
		b.kv("signature_validation_mode", svm)
		if ui != "" {
			b.kv("update_interval", ui)
		}
		b.open("cdp_config")
		b.kv("crl_fetch_mode", fm)
		b.close()
		b.close()
	}
	b.close()
	c := &CertRevocationValidator{}
	uerr := c.UnmarshalCaddyfile(caddyfile.NewDispenser(b.toks))
	known, _, crlOn := expectations(mode)
	if !known {
		verifrt.Reach("bad-mode")
		if uerr == nil {
			verifrt.Assert(ParseConfig(c) != nil, "unknown mode rejected at load time")
		}
		return
	}
	if crlOn && !withCRL {
		verifrt.Reach("crl-needs-workdir")
		verifrt.Assert(uerr != nil, "CRL checking without work_dir is rejected")
		return
	}
	verifrt.Assert(uerr == nil, "valid Caddyfile loads (modes without CRL checking need no crl_config)")
	if uerr != nil {
		return
	}
	perr := ParseConfig(c)
	if !withCRL {
		verifrt.Reach("no-crl-block")
		verifrt.Assert(perr == nil, "valid configuration parses")
		return
	}
	valid := inSet(st, "", "memory", "disk") && inSet(svm, "", "none", "verify", "verify_log") && inSet(fm, "", "fetch_actively", "fetch_background") && ui != "bogus"
	if !valid {
		verifrt.Reach("bad-enum")
		verifrt.Assert(perr != nil, "value outside an enumeration is rejected, not ignored")
		return
	}
	verifrt.Reach("valid")
	verifrt.Assert(perr == nil, "every in-enum combination parses")
	if perr != nil {
		return
	}
	cc := c.CRLConfig
	if st == "memory" {
		verifrt.Assert(cc.StorageTypeParsed == config.Memory, "memory storage")
	} else {
		verifrt.Assert(cc.StorageTypeParsed == config.Disk, "disk storage is the default")
	}
	switch svm {
	case "none":
		verifrt.Assert(cc.SignatureValidationModeParsed == config.SignatureValidationModeNone, "none")
	case "verify_log":
		verifrt.Assert(cc.SignatureValidationModeParsed == config.SignatureValidationModeVerifyLog, "verify_log")
	default:
		verifrt.Assert(cc.SignatureValidationModeParsed == config.SignatureValidationModeVerify, "verify is the default")
	}
	if fm == "fetch_background" {
		verifrt.Assert(cc.CDPConfig.CRLFetchModeParsed == config.CRLFetchModeBackground, "background")
	} else {
		verifrt.Assert(cc.CDPConfig.CRLFetchModeParsed == config.CRLFetchModeActively, "active fetch is the default")
	}
	if ui == "" {
		verifrt.Assert(cc.UpdateIntervalParsed == 30*time.Minute, "30 minute default interval")
	} else {
		verifrt.Assert(cc.UpdateIntervalParsed == 45*time.Minute, "configured interval")
	}
	verifrt.Assert(!cc.CDPConfig.CRLCDPStrict && !c.OCSPConfig.OCSPAIAStrict, "non-strict defaults")
	verifrt.Assert(c.OCSPConfig.DefaultCacheDurationParsed == 0, "no OCSP caching by default")
	verifrt.Assert(validateConfig(c) == nil, "valid configuration validates")
}

// VerifC19_Flags: the strictness flags and the OCSP cache duration - each absent or in one of its
// documented spellings - combined with the CDP fetch mode absent or given: what ParseConfig yields is
// exactly what was configured (an option never resets its neighbour), an explicit zero duration equals
// the omitted one (no caching), an unparsable duration is rejected.
func VerifC19_Flags() {
	installMechanisms()
	withCRL := verifrt.Choose(2) == 1
	strictKind, aiaKind := 0, verifrt.Choose(3)
	fm := ""
	cdVals := []string{"", "0s", "0", "10m", "bogus", "0h0m0s"}
	cdKind := verifrt.Choose(len(cdVals))
	b := &cfBuilder{}
	b.open("revocation")
	if withCRL {
		b.kv("mode", "prefer_ocsp")
		strictKind = verifrt.Choose(3)
		b.open("crl_config")
		b.kv("work_dir", "/work")
		fmKind := verifrt.Choose(3)
		if fmKind > 0 || strictKind > 0 {
			b.open("cdp_config")
			order := verifrt.Choose(2) // the two cdp options in either order
			for i := 0; i < 2; i++ {
				if (i == 0) == (order == 0) {
					if fmKind > 0 {
						fm = []string{"", "fetch_actively", "fetch_background"}[fmKind]
						b.kv("crl_fetch_mode", fm)
					}
				} else if strictKind > 0 {
					b.kv("crl_cdp_strict", []string{"", "false", "true"}[strictKind])
				}
			}
			b.close()
		}
		b.close()
	} else {
		b.kv("mode", "ocsp_only")
	}
	if cdKind > 0 || aiaKind > 0 {
		b.open("ocsp_config")
		if cdKind > 0 {
			b.kv("default_cache_duration", cdVals[cdKind])
		}
		if aiaKind > 0 {
			b.kv("ocsp_aia_strict", []string{"", "false", "true"}[aiaKind])
		}
		b.close()
	}
	b.close()
	c := &CertRevocationValidator{}
	uerr := c.UnmarshalCaddyfile(caddyfile.NewDispenser(b.toks))
	verifrt.Assert(uerr == nil, "valid Caddyfile loads")
	if uerr != nil {
		return
	}
	perr := ParseConfig(c)
	if cdKind == 4 {
		verifrt.Reach("bad-duration")
		verifrt.Assert(perr != nil, "an unparsable cache duration is rejected")
		return
	}
	verifrt.Assert(perr == nil, "every documented spelling parses (an explicit zero cache duration is the documented default)")
	if perr != nil {
		return
	}
	verifrt.Reach("flags-parsed")
	wantCD := time.Duration(0)
	if cdKind == 3 {
		wantCD = 10 * time.Minute
	}
	verifrt.Assert(c.OCSPConfig.DefaultCacheDurationParsed == wantCD, "default_cache_duration: configured value; explicit zero = omitted = no caching")
	verifrt.Assert(c.OCSPConfig.OCSPAIAStrict == (aiaKind == 2), "ocsp_aia_strict is what was configured (default false)")
	if withCRL {
		cc := c.CRLConfig
		verifrt.Assert(cc.CDPConfig != nil && cc.CDPConfig.CRLCDPStrict == (strictKind == 2), "crl_cdp_strict is what was configured (default false), whatever the other cdp options")
		if fm == "fetch_background" {
			verifrt.Assert(cc.CDPConfig.CRLFetchModeParsed == config.CRLFetchModeBackground, "background")
		} else {
			verifrt.Assert(cc.CDPConfig.CRLFetchModeParsed == config.CRLFetchModeActively, "active fetch is the default")
		}
	}
	verifrt.Assert(validateConfig(c) == nil, "valid configuration validates")
}
