package revocation

import (
	"crypto/x509"
	"os"

	"github.com/caddyserver/caddy/v2"
	"github.com/gr33nbl00d/caddy-revocation-validator/config"
	"github.com/gr33nbl00d/caddy-revocation-validator/core"
	"github.com/gr33nbl00d/caddy-revocation-validator/crl"
	"github.com/gr33nbl00d/caddy-revocation-validator/ocsp"
	"github.com/gr33nbl00d/caddy-revocation-validator/zz_verif/verifrt"
	"go.uber.org/zap"
	xocsp "golang.org/x/crypto/ocsp"
)

const modRoot = "github.com/gr33nbl00d/caddy-revocation-validator"

// scripted mechanisms: outcome 0 = not revoked, 1 = revoked, 2 = error
var (
	ocspCalls, crlCalls     int
	ocspOutcome, crlOutcome int
	crlProvisioned          int
)

// withAnswer: a 'not revoked' / 'revoked' verdict may or may not carry the responder's answer
// (an authentic OCSP "good" does, "no responder known" does not)
var withAnswer bool

func outcome(o int) (*core.RevocationStatus, error) {
	var resp *xocsp.Response
	if withAnswer {
		resp = &xocsp.Response{}
	}
	switch o {
	case 1:
		return &core.RevocationStatus{Revoked: true, OcspResponse: resp}, nil
	case 2:
		return nil, verifrt.NewError("mechanism failure")
	}
	return &core.RevocationStatus{OcspResponse: resp}, nil
}

func installMechanisms() {
	ocspCalls, crlCalls, crlProvisioned = 0, 0, 0
	ocspOutcome, crlOutcome = verifrt.Choose(3), verifrt.Choose(3)
	withAnswer = verifrt.Choose(2) == 1
	verifrt.Override("(*"+modRoot+"/ocsp.OCSPRevocationChecker).IsRevoked", func(c *ocsp.OCSPRevocationChecker, cert *x509.Certificate, chains [][]*x509.Certificate) (*core.RevocationStatus, error) {
		ocspCalls++
		return outcome(ocspOutcome)
	})
	verifrt.Override("(*"+modRoot+"/crl.CRLRevocationChecker).IsRevoked", func(c *crl.CRLRevocationChecker, cert *x509.Certificate, chains [][]*x509.Certificate) (*core.RevocationStatus, error) {
		crlCalls++
		return outcome(crlOutcome)
	})
	verifrt.Override("(*"+modRoot+"/crl.CRLRevocationChecker).Provision", func(c *crl.CRLRevocationChecker, cfg *config.CRLConfig, l *zap.Logger) error {
		crlProvisioned++
		return nil
	})
	verifrt.Override("(*"+modRoot+"/crl.CRLRevocationChecker).Cleanup", func(c *crl.CRLRevocationChecker) error { return nil })
	verifrt.Override("(github.com/caddyserver/caddy/v2.Context).Logger", func(ctx caddy.Context, m ...caddy.Module) *zap.Logger { return nil })
	verifrt.Override("os.Stat", func(name string) (os.FileInfo, error) { return dirInfo{}, nil })
}

type dirInfo struct{ os.FileInfo }

func (dirInfo) IsDir() bool { return true }

// the statement's truth table, written once
func expectations(mode string) (known, ocspOn, crlOn bool) {
	switch mode {
	case "", "prefer_ocsp", "prefer_crl":
		return true, true, true
	case "ocsp_only":
		return true, true, false
	case "crl_only":
		return true, false, true
	case "disabled":
		return true, false, false
	}
	return false, false, false
}

// VerifC03_Mode: mode is ANY string. Provision + VerifyClientCertificate must realise exactly the
// documented composition: reject iff an enabled mechanism says revoked or fails.
func VerifC03_Mode() {
	installMechanisms()
	c := &CertRevocationValidator{}
	c.Mode = verifrt.NondetString("mode")
	c.CRLConfig = &config.CRLConfig{WorkDir: "/work"}
	perr := c.Provision(caddy.Context{})
	known, ocspOn, crlOn := expectations(c.Mode)
	if !known {
		verifrt.Reach("unknown-mode")
		verifrt.Assert(perr != nil, "unknown mode is rejected at provisioning")
		return
	}
	verifrt.Assert(perr == nil, "documented mode provisions")
	if perr != nil {
		return
	}
	if c.Mode == "" {
		verifrt.Assert(c.ModeParsed == config.RevocationCheckModePreferOCSP, "unset mode means prefer_ocsp")
	}
	verifrt.Assert(isOCSPCheckingEnabled(c) == ocspOn, "OCSP enabled exactly for prefer_*/ocsp_only/unset")
	verifrt.Assert(isCRLCheckingEnabled(c) == crlOn, "CRL enabled exactly for prefer_*/crl_only/unset")
	if crlOn {
		verifrt.Assert(c.crlRevocationChecker != nil && crlProvisioned == 1, "CRL checker exists and was provisioned when the mode enables it")
	} else {
		verifrt.Assert(crlProvisioned == 0, "CRL machinery is not started when the mode disables it")
	}
	// handshake
	nchains := verifrt.Choose(3)
	var chains [][]*x509.Certificate
	for i := 0; i < nchains; i++ {
		chains = append(chains, []*x509.Certificate{{}, {}})
	}
	err := c.VerifyClientCertificate(nil, chains)
	if nchains == 0 {
		verifrt.Assert(err == nil && ocspCalls == 0 && crlCalls == 0, "no verified chain: nothing to check")
		return
	}
	ocspRejects := ocspOn && ocspOutcome != 0
	crlRejects := crlOn && crlOutcome != 0
	verifrt.Assert((err != nil) == (ocspRejects || crlRejects), "rejected iff an enabled mechanism reports revoked or fails")
	if !ocspOn {
		verifrt.Assert(ocspCalls == 0, "OCSP never consulted when disabled by mode")
	}
	if !crlOn {
		verifrt.Assert(crlCalls == 0, "CRL never consulted when disabled by mode")
	}
	if ocspOn && crlOn && err == nil {
		verifrt.Reach("both-consulted")
		verifrt.Assert(ocspCalls == 1 && crlCalls == 1, "prefer_* consults both mechanisms")
	}
	if ocspOn && crlOn && !ocspRejects {
		verifrt.Assert(crlCalls == 1, "CRL still enforced after a clean OCSP answer")
	}
	if c.Mode == "disabled" {
		verifrt.Reach("disabled")
	}
	verifrt.Assert(c.Cleanup() == nil, "cleanup succeeds")
}
