package hashing

import (
	"github.com/gr33nbl00d/caddy-revocation-validator/zz_verif/verifrt"
)

// VerifSum64: Sum64 == FNV-1a (64 bit, little-endian output) for every key of length 0..L.
// The reference is the textbook definition, written independently.
func VerifSum64() {
	L := verifrt.Param("L", 6)
	n := verifrt.Choose(L + 1)
	raw := verifrt.NondetBytes("key", L)
	key := verifrt.BytesToToken(raw[:n])
	got := Sum64(key)
	var h uint64 = 0xcbf29ce484222325
	for i := 0; i < n; i++ {
		h ^= uint64(raw[i])
		h *= 0x100000001b3
	}
	verifrt.Assert(len(got) == 8, "8 bytes")
	for i := 0; i < 8; i++ {
		verifrt.Assert(got[i] == byte(h>>(8*uint(i))), "FNV-1a byte")
	}
	verifrt.Reach("fnv")
	// determinism / no aliasing: a second call returns an equal, distinct buffer
	again := Sum64(key)
	verifrt.Assert(verifrt.BytesEqual(got, again), "deterministic")
	again[0] ^= 0xff
	verifrt.Assert(got[0] != again[0], "fresh buffer per call")
}
