package hashing

import (
	"github.com/gr33nbl00d/caddy-revocation-validator/zz_verif/verifrt"
)

// VerifSelfTest: TestSum64 of the repository, executed by the engine in concrete mode.
func VerifSelfTest() {
	got := Sum64("helloworld")
	want := []byte{129, 85, 74, 146, 94, 49, 217, 16}
	verifrt.Assert(verifrt.BytesEqual(got, want), "TestSum64 helloworld")
	verifrt.Reach("selftest")
}
