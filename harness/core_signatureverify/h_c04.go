package signatureverify

import (
	"crypto"
	"crypto/ecdsa"
	"crypto/ed25519"
	"crypto/rsa"
	"crypto/x509"
	"crypto/x509/pkix"
	"encoding/asn1"
	"math/big"

	"github.com/gr33nbl00d/caddy-revocation-validator/zz_verif/verifrt"
)

type algRow struct {
	oid  asn1.ObjectIdentifier
	hash crypto.Hash
	key  x509.PublicKeyAlgorithm
}

var supportedAlgs = []algRow{
	{asn1.ObjectIdentifier{1, 2, 840, 113549, 1, 1, 5}, crypto.SHA1, x509.RSA},
	{asn1.ObjectIdentifier{1, 2, 840, 113549, 1, 1, 14}, crypto.SHA224, x509.RSA},
	{asn1.ObjectIdentifier{1, 2, 840, 113549, 1, 1, 11}, crypto.SHA256, x509.RSA},
	{asn1.ObjectIdentifier{1, 2, 840, 113549, 1, 1, 12}, crypto.SHA384, x509.RSA},
	{asn1.ObjectIdentifier{1, 2, 840, 113549, 1, 1, 13}, crypto.SHA512, x509.RSA},
	{asn1.ObjectIdentifier{1, 2, 840, 10045, 4, 1}, crypto.SHA1, x509.ECDSA},
	{asn1.ObjectIdentifier{1, 2, 840, 10045, 4, 3, 1}, crypto.SHA224, x509.ECDSA},
	{asn1.ObjectIdentifier{1, 2, 840, 10045, 4, 3, 2}, crypto.SHA256, x509.ECDSA},
	{asn1.ObjectIdentifier{1, 2, 840, 10045, 4, 3, 3}, crypto.SHA384, x509.ECDSA},
	{asn1.ObjectIdentifier{1, 2, 840, 10045, 4, 3, 4}, crypto.SHA512, x509.ECDSA},
}

func isSupported(o asn1.ObjectIdentifier) bool {
	for _, r := range supportedAlgs {
		if r.oid.Equal(o) {
			return true
		}
	}
	return false
}

// VerifC04_AlgorithmTable: the declared signature algorithm selects hash and verification strategy
// exactly: each of the ten supported OIDs yields its hash and RSA/ECDSA, and every neighbour of a
// supported OID - one more arc, one arc less, the last arc changed by an arbitrary amount (so also
// every single-bit change of it), the last arc followed by further decimal digits - is rejected
// unless it is itself one of the ten. (Declaring another algorithm keeps a CRL out of force.)
func VerifC04_AlgorithmTable() {
	r := supportedAlgs[verifrt.Choose(len(supportedAlgs))]
	oid := append(asn1.ObjectIdentifier{}, r.oid...)
	last := len(oid) - 1
	switch verifrt.Choose(6) {
	case 0: // the OID itself
	case 1: // one more arc
		oid = append(oid, verifrt.Choose(3))
	case 2: // one arc less
		oid = oid[:last]
	case 3: // last arc replaced by any value 0..40 (covers every single-bit change of the small arcs)
		oid[last] = verifrt.Choose(41)
	case 4: // the decimal rendering of the last arc extended by one more digit ("...4.1" -> "...4.17")
		oid[last] = oid[last]*10 + verifrt.Choose(10)
	case 5: // RSASSA-PSS, Ed25519, DSA: algorithms of the same families that are not supported
		oid = []asn1.ObjectIdentifier{{1, 2, 840, 113549, 1, 1, 10}, {1, 3, 101, 112}, {1, 2, 840, 10040, 4, 3}}[verifrt.Choose(3)]
	}
	h, err := LookupHashAndVerifyStrategies(pkix.AlgorithmIdentifier{Algorithm: oid})
	if !isSupported(oid) {
		verifrt.Reach("unsupported")
		verifrt.Assert(err != nil && h == nil, "an algorithm that is not one of the supported ten is rejected (no strategy is guessed from a similar OID)")
		return
	}
	verifrt.Reach("supported")
	var want algRow
	for _, x := range supportedAlgs {
		if x.oid.Equal(oid) {
			want = x
		}
	}
	verifrt.Assert(err == nil && h != nil, "a supported algorithm is accepted")
	if err == nil && h != nil {
		verifrt.Assert(h.HashStrategy == want.hash, "the declared algorithm selects its own hash")
		verifrt.Assert(h.VerifyStrategy != nil && h.VerifyStrategy.GetAlgorithmID() == want.key, "the declared algorithm selects RSA or ECDSA verification")
	}
}

// VerifC04_Strategies: the REAL RSA and ECDSA verification strategies over modelled primitives
// (rsa.VerifyPKCS1v15 / ecdsa.Verify answer an arbitrary verdict; ecdsa.Verify dereferences r and s
// like the real one; the signature value decodes to (r, s), or does not decode): VerifySignature
// returns nil exactly when the key has the algorithm's type, the signature value is well-formed and
// the primitive says "valid" - and it never panics on a malformed signature value or a foreign key type.
func VerifC04_Strategies() {
	valid := verifrt.NondetBool("primitive_says_valid")
	verifrt.Override("crypto/rsa.VerifyPKCS1v15", func(pub *rsa.PublicKey, h crypto.Hash, hashed, sig []byte) error {
		if valid {
			return nil
		}
		return verifrt.NewError("crypto/rsa: verification error")
	})
	verifrt.Override("crypto/ecdsa.Verify", func(pub *ecdsa.PublicKey, hash []byte, r, s *big.Int) bool {
		_ = r.Sign() // the real function reads both numbers: a nil one is a crash
		_ = s.Sign()
		return valid
	})
	decodes := verifrt.Choose(2) == 1
	verifrt.Override("encoding/asn1.Unmarshal", func(b []byte, val interface{}) ([]byte, error) {
		if !decodes {
			return nil, verifrt.NewError("asn1: structure error")
		}
		if s, ok := val.(*signature); ok {
			s.R, s.S = big.NewInt(7), big.NewInt(9)
		}
		return nil, nil
	})
	var key interface{}
	keyKind := verifrt.Choose(3)
	switch keyKind {
	case 0:
		key = &rsa.PublicKey{}
	case 1:
		key = &ecdsa.PublicKey{}
	case 2:
		key = ed25519.PublicKey{}
	}
	sigBytes := verifrt.NondetBytes("signatureValue", 4)
	if verifrt.Choose(2) == 0 {
		err := RSASignatureVerifyStrategy{}.VerifySignature(crypto.SHA256, key, []byte{1}, sigBytes)
		verifrt.Assert((err == nil) == verifrt.And(keyKind == 0, valid), "RSA: accepted exactly for an RSA key under which the signature verifies")
		verifrt.Reach("rsa")
	} else {
		err := ECDSASignatureVerifyStrategy{}.VerifySignature(crypto.SHA256, key, []byte{1}, sigBytes)
		verifrt.Assert((err == nil) == verifrt.And(keyKind == 1 && decodes, valid), "ECDSA: accepted exactly for an ECDSA key, a well-formed (r, s) and a verifying signature")
		verifrt.Reach("ecdsa")
	}
}
