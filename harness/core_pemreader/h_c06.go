package pemreader

import (
	"bufio"
	"io"
	"os"

	"github.com/gr33nbl00d/caddy-revocation-validator/zz_verif/verifrt"
)

// chunkSrc: a file whose Read returns at most `chunk` bytes per call (0 = everything available).
type chunkSrc struct {
	data  []byte
	pos   int
	chunk int
}

func (f *chunkSrc) Read(p []byte) (int, error) {
	if len(p) == 0 {
		return 0, nil
	}
	rem := len(f.data) - f.pos
	if rem <= 0 {
		return 0, io.EOF
	}
	k := len(p)
	if k > rem {
		k = rem
	}
	if f.chunk > 0 && k > f.chunk {
		k = f.chunk
	}
	copy(p[:k], f.data[f.pos:f.pos+k])
	f.pos += k
	return k, nil
}

func isB64(b byte) bool {
	up := verifrt.And(b >= 'A', b <= 'Z')
	lo := verifrt.And(b >= 'a', b <= 'z')
	dg := verifrt.And(b >= '0', b <= '9')
	return verifrt.Or(verifrt.Or(up, lo), verifrt.Or(dg, verifrt.Or(b == '+', verifrt.Or(b == '/', b == '='))))
}

func b64line(label string, n int) []byte {
	l := verifrt.NondetBytes(label, n)
	for i := 0; i < n; i++ {
		verifrt.Assume(isB64(l[i]))
	}
	return l
}

// VerifC06_PemStream: for every PEM text made of an armour line, k full 64-column lines, an optional
// shorter last line, and the closing armour line - every line ended by LF or CRLF (chosen per line),
// with or without a newline after the closing armour, optionally with a second armour block header
// style line ("Proc-Type"-free) - and for EVERY base64 character content, the byte stream that
// PemReader.Read hands to the base64 decoder is exactly the body lines with their line ends and nothing
// of the armour, whatever the buffered-reader window (16 or 4096) and the read chunking of the file.
// (The armour regular expression is encoded exactly from the pattern in the source: engine/regex.go.)
func VerifC06_PemStream() {
	K := verifrt.Param("K", 2)
	W := verifrt.Param("W", 64)
	k := verifrt.Choose(K + 1)
	lastLens := []int{0, 1, W - 1}
	last := lastLens[verifrt.Choose(3)]
	eols := [][]byte{{'\n'}, {'\r', '\n'}}
	var text, want []byte
	text = append(text, []byte("-----BEGIN X509 CRL-----")...)
	text = append(text, eols[verifrt.Choose(2)]...)
	for i := 0; i < k; i++ {
		l := b64line("line", W)
		e := eols[verifrt.Choose(2)]
		text = append(text, l...)
		text = append(text, e...)
		want = append(want, l...)
		want = append(want, e...)
	}
	if last > 0 {
		l := b64line("last", last)
		e := eols[verifrt.Choose(2)]
		text = append(text, l...)
		text = append(text, e...)
		want = append(want, l...)
		want = append(want, e...)
	}
	text = append(text, []byte("-----END X509 CRL-----")...)
	switch verifrt.Choose(3) {
	case 1:
		text = append(text, '\n')
	case 2:
		text = append(text, '\r', '\n')
	}
	win := []int{16, 4096}[verifrt.Choose(2)]
	chunk := []int{0, 1, 7}[verifrt.Choose(3)]
	p := NewPemReader(bufio.NewReaderSize(&chunkSrc{data: text, chunk: chunk}, win))
	buf := make([]byte, []int{66, 100}[verifrt.Choose(2)])
	var got []byte
	reads := 0
	for {
		n, err := p.Read(buf)
		verifrt.Assert(n >= 0 && n <= len(buf), "never reports more bytes than the buffer holds")
		if err != nil {
			verifrt.Assert(err == io.EOF, "a well-formed PEM text ends with EOF, not with an error")
			verifrt.Assert(n == 0, "nothing delivered together with the end of the text")
			break
		}
		got = append(got, buf[:n]...)
		reads++
		if reads > K+3 {
			verifrt.Assert(false, "more reads than lines")
			return
		}
	}
	verifrt.Assert(len(got) == len(want), "delivered stream has the length of the body lines")
	if len(got) == len(want) {
		verifrt.Assert(verifrt.BytesEqual(got, want), "delivered stream = body lines (with their line ends), armour removed")
	}
	verifrt.Reach("pem-stream-checked")
}

// VerifC06_PemDetect: IsPemFile answers true for every text whose first line is an armour line
// (LF or CRLF, any label of upper-case letters, digits and blanks), false for every DER document
// (first byte 0x30, arbitrary other bytes, including bytes that look like armour later on), and
// leaves the file position where it was.
func VerifC06_PemDetect() {
	N := verifrt.Param("N", 12)
	verifrt.InstallFS()
	var data []byte
	isPem := verifrt.Choose(2) == 1
	if isPem {
		lab := verifrt.NondetBytes("label", 3)
		for i := 0; i < 3; i++ {
			c := lab[i]
			verifrt.Assume(verifrt.Or(verifrt.And(c >= 'A', c <= 'Z'), verifrt.Or(verifrt.And(c >= '0', c <= '9'), c == ' ')))
		}
		data = append(data, []byte("-----")...)
		data = append(data, lab[:verifrt.Choose(4)]...)
		data = append(data, []byte("-----")...)
		eol := verifrt.Choose(3)
		switch eol {
		case 0:
			data = append(data, '\n')
		case 1:
			data = append(data, '\r', '\n')
		case 2: // armour line only, no line end (still PEM)
		}
		if eol < 2 && verifrt.Choose(2) == 1 {
			data = append(data, verifrt.NondetBytes("rest", 4)...)
		}
	} else {
		rest := verifrt.NondetBytes("der", N)
		data = append(data, 0x30)
		data = append(data, rest[:verifrt.Choose(N+1)]...)
	}
	path := verifrt.PutFile("crl.bin", data, len(data))
	f, err := os.Open(path)
	verifrt.Assume(err == nil)
	start := int64(0)
	if verifrt.Choose(2) == 1 && len(data) >= 2 {
		start, _ = f.Seek(2, 0)
	}
	err2, got := IsPemFile(f)
	verifrt.Assert(err2 == nil, "detection does not fail on a readable file")
	if isPem {
		verifrt.Assert(got, "a text starting with an armour line is PEM")
	} else {
		verifrt.Assert(!got, "a DER document is never taken for PEM")
	}
	pos, _ := f.Seek(0, 1)
	verifrt.Assert(pos == start, "file position restored")
	verifrt.Reach("pem-detect-checked")
}
