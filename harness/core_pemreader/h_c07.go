package pemreader

import (
	"bufio"
	"io"

	"github.com/gr33nbl00d/caddy-revocation-validator/zz_verif/verifrt"
)

type symSrc struct {
	data []byte
	n    int
	pos  int
}

func (f *symSrc) Read(p []byte) (int, error) {
	if len(p) == 0 {
		return 0, nil
	}
	rem := f.n - f.pos
	if rem <= 0 {
		return 0, io.EOF
	}
	k := len(p)
	if k > rem {
		k = rem
	}
	copy(p[:k], f.data[f.pos:f.pos+k])
	f.pos += k
	return k, nil
}

// VerifC07_PemReader: PemReader.Read over EVERY text of length <= N (broken armour, long lines,
// missing newline, empty file), the armour regular expression encoded exactly (engine/regex.go):
// no panic, never more bytes returned than the caller's buffer
// holds, every recursion consumes a line.
func VerifC07_PemReader() {
	N := verifrt.Param("N", 8)
	n := verifrt.NondetInt("n")
	verifrt.Assume(n >= 0)
	verifrt.Assume(n <= N)
	text := verifrt.NondetBytes("text", N)
	src := &symSrc{data: text, n: n}
	p := NewPemReader(bufio.NewReaderSize(src, 16))
	bufLen := []int{0, 10, 66, 100}[verifrt.Choose(4)]
	buf := make([]byte, bufLen)
	verifrt.StepBudget(verifrt.Param("steps", 2000000), true)
	for i := 0; i < 3; i++ {
		k, err := p.Read(buf)
		verifrt.Assert(k >= 0 && k <= len(buf), "never reports more bytes than the buffer holds")
		if err != nil {
			verifrt.Reach("error-or-eof")
			return
		}
		verifrt.Reach("line")
		verifrt.Assert(k > 0, "a successful read delivers at least the line terminator")
	}
}
