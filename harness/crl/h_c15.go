package crl

import (
	"go.uber.org/zap"
	"math/big"
	"time"

	"github.com/gr33nbl00d/caddy-revocation-validator/config"
	"github.com/gr33nbl00d/caddy-revocation-validator/crl/crlrepository"
	"github.com/gr33nbl00d/caddy-revocation-validator/zz_verif/verifrt"
)

const modRoot = "github.com/gr33nbl00d/caddy-revocation-validator"

var updatesOf map[*crlrepository.Repository]int

// VerifC15_Ticks: two validator instances in one process with arbitrary positive update intervals.
// Instance B receives three consecutive ticks spaced by its interval; instance A's ticks fall at
// arbitrary instants in between (the clock is symbolic). Bounded liveness: B's repository is
// refreshed by at least one of any three consecutive ticks of B, whatever A does.
func VerifC15_Ticks() {
	crlrepository.VerifInstallWorld()
	verifrt.InstallDirListing()
	crlrepository.VerifInstallRepoConstructor()
	updatesOf = map[*crlrepository.Repository]int{}
	verifrt.Override("(*"+modRoot+"/crl/crlrepository.Repository).UpdateCRLs", func(r *crlrepository.Repository) { updatesOf[r]++ })
	mk := func(label string) (*CRLRevocationChecker, int64) {
		iv := verifrt.NondetInt64(label)
		verifrt.Assume(iv >= 2)
		verifrt.Assume(iv < 1<<40)
		cfg := &config.CRLConfig{WorkDir: "/work-" + label, CDPConfig: &config.CDPConfig{}, UpdateIntervalParsed: time.Duration(iv)}
		rawLikeParsed(cfg)
		c := &CRLRevocationChecker{}
		verifrt.Assume(c.Provision(cfg, zap.NewNop()) == nil) // the real Provision (own work_dir per validator)
		verifrt.DropSpawned()
		return c, iv
	}
	a, _ := mk("intervalA")
	b, ivB := mk("intervalB")
	withA := verifrt.Choose(2) == 1
	busy := verifrt.Choose(2) == 1
	t := verifrt.NondetInt64("t0")
	verifrt.Assume(t > 0)
	verifrt.Assume(t < 1<<41)
	for k := 0; k < 3; k++ {
		tickB := t + int64(k)*ivB
		if withA {
			// an A tick somewhere in the window before this B tick
			ta := verifrt.NondetInt64("ta")
			lo := tickB - ivB
			if k == 0 {
				lo = 1
			}
			verifrt.Assume(ta >= lo)
			verifrt.Assume(ta <= tickB)
			verifrt.SetNow(ta)
			a.updateCRLs(false)
		}
		verifrt.SetNow(tickB)
		if busy {
			// another validator is in the middle of its own refresh when B's tick arrives
			verifrt.OtherThreadHolds(&crlUpdateMutex)
		}
		b.updateCRLs(false)
	}
	verifrt.FreeNow()
	verifrt.Reach("three-ticks")
	verifrt.Assert(updatesOf[b.crlRepository] >= 1, "among three consecutive ticks of an instance at least one refreshes its repository, independently of other instances")
	if !withA {
		verifrt.Assert(updatesOf[b.crlRepository] == 3, "a lone instance refreshes on every tick")
	}
}

// VerifC15_Known: every CRL the validator knows keeps being refreshed.
//  (1) crl_urls / crl_files are in force when the provisioning helpers return, in both fetch modes
//  (2) a CDP CRL first loaded in the background is refreshed by later ticks
//  (3) a failed refresh of one location neither stops the others nor the next tick
func VerifC15_Known() {
	fetch := config.CRLFetchMode(verifrt.Choose(2))
	sig := config.SignatureValidationMode(verifrt.Choose(3))
	c := newChecker(verifrt.Param("disk", 0) == 1, fetch, false, sig)
	s1, s2 := sym("s1"), sym("s2")
	verifrt.Assume(s1.Cmp(s2) != 0)
	revoked := func(s *big.Int) bool {
		cc := crlrepository.VerifCert("CN=I1", s)
		st, err := c.crlRepository.IsRevoked(cc, nil)
		return err == nil && st.Revoked
	}
	scenario := verifrt.Choose(4)
	switch scenario {
	case 0: // provisioning of configured lists
		crlrepository.VerifSetServer(urlB, true, crlrepository.VerifNewCRL("B", "CN=I1", s1))
		// the configured file is a symbolic link that the publisher re-points to every new list
		// (Kubernetes ConfigMap / "current.crl" style); the list it pointed to before is deleted
		crlrepository.VerifSetLink(fileC, fileC+".v1")
		crlrepository.VerifSetServer(fileC+".v1", true, crlrepository.VerifNewCRL("C", "CN=I1", s2))
		// a second validator (own work_dir state: the first one is cleaned up) provisioned by the real Provision
		// with the lists configured
		_ = c.Cleanup()
		var perr error
		c, perr = provisionChecker(verifrt.Param("disk", 0) == 1, fetch, false, sig, []string{urlB}, []string{fileC})
		verifrt.Reach("provision")
		verifrt.Assert(perr == nil, "acceptable configured CRLs provision in every fetch mode")
		if perr != nil {
			return
		}
		verifrt.Assert(revoked(s1) && revoked(s2), "configured CRLs are in force when provisioning returns")
		for round := 0; round < 2; round++ {
			sn := sym("sn")
			crlrepository.VerifSetServer(urlB, true, crlrepository.VerifNewCRL("Bn", "CN=I1", sn))
			sf := sym("sf")
			next := fileC + []string{".v2", ".v3"}[round]
			crlrepository.VerifSetServer(next, true, crlrepository.VerifNewCRL("Cn", "CN=I1", sf))
			crlrepository.VerifSetServer(fileC+[]string{".v1", ".v2"}[round], false, nil)
			crlrepository.VerifSetLink(fileC, next)
			c.crlRepository.UpdateCRLs()
			verifrt.Assert(revoked(sn), "a configured CRL is refreshed by every later tick")
			verifrt.Assert(revoked(sf), "a configured crl_file is read again where its path points NOW (a re-pointed symbolic link is followed)")
		}
	case 1: // CDP list: first load (active or background), then a periodic refresh to a new list
		crlrepository.VerifSetServer(urlA, true, crlrepository.VerifNewCRL("A1", "CN=I1", s1))
		cert := crlrepository.VerifCert("CN=I1", s2, urlA)
		_, _ = c.IsRevoked(cert, chainFor(cert))
		verifrt.RunSpawned()
		verifrt.Assert(revoked(s1), "the distribution-point CRL is in force after its first load")
		crlrepository.VerifSetServer(urlA, true, crlrepository.VerifNewCRL("A2", "CN=I1", s2))
		c.crlRepository.UpdateCRLs()
		verifrt.Reach("cdp-refresh")
		verifrt.Assert(revoked(s2) && !revoked(s1), "a later tick refreshes the distribution-point CRL")
		// ... and so does every tick after it (a refreshed store still knows where its list comes from)
		s3 := sym("s3")
		verifrt.Assume(s3.Cmp(s1) != 0)
		verifrt.Assume(s3.Cmp(s2) != 0)
		crlrepository.VerifSetServer(urlA, true, crlrepository.VerifNewCRL("A3", "CN=I1", s3))
		c.crlRepository.UpdateCRLs()
		verifrt.Assert(revoked(s3) && !revoked(s2), "the tick after a refresh refreshes again")
	case 2: // two locations, the refresh of one fails: the other one and the next tick still work
		crlrepository.VerifSetServer(urlA, true, crlrepository.VerifNewCRL("A1", "CN=I1", s1))
		crlrepository.VerifSetServer(urlB, true, crlrepository.VerifNewCRL("B1", "CN=I2", s1))
		ca := crlrepository.VerifCert("CN=I1", s2, urlA)
		cb := crlrepository.VerifCert("CN=I1", s2, urlB)
		_, _ = c.IsRevoked(ca, chainFor(ca))
		_, _ = c.IsRevoked(cb, chainFor(cb))
		verifrt.RunSpawned()
		crlrepository.VerifSetServer(urlA, false, nil)
		crlrepository.VerifSetServer(urlB, true, crlrepository.VerifNewCRL("B2", "CN=I1", s2))
		verifrt.MapOrders(true) // the repository map is walked in either order
		c.crlRepository.UpdateCRLs()
		verifrt.MapOrders(false)
		verifrt.Reach("one-fails")
		verifrt.Assert(revoked(s2), "a failing location does not stop the refresh of the others")
		verifrt.Assert(revoked(s1), "the failing location keeps its previous list")
		s3 := sym("s3")
		crlrepository.VerifSetServer(urlA, true, crlrepository.VerifNewCRL("A2", "CN=I1", s3))
		c.crlRepository.UpdateCRLs()
		verifrt.Assert(revoked(s3), "the next tick retries the location that failed")
	case 3: // the FIRST load of a distribution-point CRL fails at the handshake; a tick loads it; later ticks keep refreshing it
		crlrepository.VerifSetServer(urlA, false, nil)
		cert := crlrepository.VerifCert("CN=I1", s2, urlA)
		_, _ = c.IsRevoked(cert, chainFor(cert))
		verifrt.RunSpawned()
		crlrepository.VerifSetServer(urlA, true, crlrepository.VerifNewCRL("A1", "CN=I1", s1))
		c.crlRepository.UpdateCRLs()
		verifrt.Assert(revoked(s1), "a tick loads the known CRL whose first download failed")
		crlrepository.VerifSetServer(urlA, true, crlrepository.VerifNewCRL("A2", "CN=I1", s2))
		c.crlRepository.UpdateCRLs()
		verifrt.Reach("failed-first-load-then-refreshes")
		verifrt.Assert(revoked(s2) && !revoked(s1), "after that the CRL is refreshed like any other known CRL")
	}
	verifrt.DropSpawned()
}
