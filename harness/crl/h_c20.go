package crl

import (
	"github.com/gr33nbl00d/caddy-revocation-validator/config"
	"github.com/gr33nbl00d/caddy-revocation-validator/crl/crlrepository"
	"github.com/gr33nbl00d/caddy-revocation-validator/zz_verif/verifrt"
	"go.uber.org/zap"
)

// VerifC20_Registry: work_dir registration behaves like a set over arbitrary directory strings, for
// k provision/cleanup cycles: a directory in use is refused, a released one can be taken again.
func VerifC20_Registry() {
	d1, d2 := verifrt.NondetString("dir1"), verifrt.NondetString("dir2")
	c1, c2 := &config.CRLConfig{WorkDir: d1}, &config.CRLConfig{WorkDir: d2}
	for cycle := 0; cycle < 3; cycle++ {
		verifrt.Assert(RegisterCRLWorkDirUsage(c1) == nil, "a free work_dir can be taken (also after earlier cycles)")
		e2 := RegisterCRLWorkDirUsage(c2)
		verifrt.Assert((e2 != nil) == (d1 == d2), "a second validator is refused exactly when it names the same work_dir")
		verifrt.Assert(RegisterCRLWorkDirUsage(c1) != nil, "a work_dir in use is refused")
		DeregisterCRLWorkDirUsage(c1)
		if e2 == nil {
			DeregisterCRLWorkDirUsage(c2)
		}
	}
	verifrt.Reach("cycles")
}

// VerifC20_Lifecycle: provision / cleanup cycles through the REAL Provision and Cleanup, where the
// configured CRL of a cycle is acceptable or not (bad signature, origin down) - so Provision succeeds
// or fails half-way, after the work_dir was registered and databases were opened. After Cleanup of
// either kind of instance the work_dir is free again and no database LOCK is held: cycles can repeat.
func VerifC20_Lifecycle() {
	crlrepository.VerifInstallWorld()
	verifrt.InstallDirListing()
	crlrepository.VerifInstallRepoConstructor()
	st := config.Memory
	if verifrt.Choose(2) == 1 {
		st = config.Disk
	}
	s1 := sym("s1")
	cfg := &config.CRLConfig{WorkDir: "/work", StorageTypeParsed: st, CDPConfig: &config.CDPConfig{CRLFetchModeParsed: config.CRLFetchMode(verifrt.Choose(2))},
		SignatureValidationModeParsed: config.SignatureValidationModeVerify, UpdateIntervalParsed: 1800e9, CRLUrls: []string{urlB}}
	rawLikeParsed(cfg)
	n := verifrt.Param("cycles", 2)
	for cycle := 0; cycle < n; cycle++ {
		kind := verifrt.Choose(3) // 0 acceptable, 1 bad signature, 2 origin down
		pub := crlrepository.VerifNewCRL("B", "CN=I1", s1)
		switch kind {
		case 0:
			crlrepository.VerifSetServer(urlB, true, pub)
		case 1:
			pub.SetSigOK(false)
			crlrepository.VerifSetServer(urlB, true, pub)
		case 2:
			crlrepository.VerifSetServer(urlB, false, nil)
		}
		if st == config.Disk && verifrt.Choose(2) == 1 {
			// leftovers of a process that died during a load: a download file and a staging database
			verifrt.Disk["/work/crl_424242_tmp"] = &verifrt.Dir{Exists: true, IsFile: true}
			verifrt.Disk["/work/crl_1b4e28ba-2fa1-11d2-883f-0016d3cca427_tmp"] = &verifrt.Dir{Exists: true, HasFiles: true}
			if verifrt.Disk["/work"] == nil {
				verifrt.Disk["/work"] = &verifrt.Dir{Exists: true}
			}
			verifrt.Reach("leftovers-planted")
		}
		c := &CRLRevocationChecker{}
		err := c.Provision(cfg, zap.NewNop())
		verifrt.Assert(verifrt.TempResidue("/work") == 0, "every provisioning (not only the first of the process) sweeps the leftovers in its work_dir")
		verifrt.DropSpawned() // the ticker goroutine (channels are not encodable; its lifetime is outside the claim)
		verifrt.Assert((err == nil) == (kind == 0), "provisioning succeeds exactly when the configured CRL is acceptable")
		if err != nil {
			verifrt.Reach("failed-provision")
		}
		if err == nil && verifrt.Choose(2) == 1 {
			// while this validator is alive a second one is configured with the same work_dir: it is refused, and
			// cleaning up the refused instance must not release the directory of the live one
			dup := &CRLRevocationChecker{}
			derr := dup.Provision(cfg, zap.NewNop())
			verifrt.DropSpawned()
			verifrt.Assert(derr != nil, "a second validator on a work_dir in use is refused")
			verifrt.Assert(dup.Cleanup() == nil, "cleanup of the refused instance succeeds")
			verifrt.Assert(RegisterCRLWorkDirUsage(cfg) != nil, "the work_dir still belongs to the live validator after the refused one was cleaned up")
			verifrt.Reach("refused-duplicate")
		}
		verifrt.Assert(c.Cleanup() == nil, "cleanup succeeds")
		verifrt.Assert(verifrt.LocksHeld() == 0, "no lock held after cleanup")
		// released: the work_dir can be taken again and no database handle keeps its LOCK
		verifrt.Assert(RegisterCRLWorkDirUsage(cfg) == nil, "the work_dir is free again after Cleanup (also after a failed Provision)")
		DeregisterCRLWorkDirUsage(cfg)
		for _, d := range verifrt.Disk {
			verifrt.Assert(!d.Locked, "no database is left open after Cleanup")
		}
		verifrt.Assert(verifrt.TempResidue("/work") == 0, "no temporary artefact after the cycle")
	}
	verifrt.Reach("lifecycle")
}
