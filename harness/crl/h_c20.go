package crl

import (
	"github.com/gr33nbl00d/caddy-revocation-validator/config"
	"github.com/gr33nbl00d/caddy-revocation-validator/zz_verif/verifrt"
)

// VerifC20_Registry: work_dir registration behaves like a set over arbitrary directory strings, for
// k provision/cleanup cycles: a directory in use is refused, a released one can be taken again.
func VerifC20_Registry() {
	d1, d2 := verifrt.NondetString("dir1"), verifrt.NondetString("dir2")
	c1, c2 := &config.CRLConfig{WorkDir: d1}, &config.CRLConfig{WorkDir: d2}
	for cycle := 0; cycle < 3; cycle++ {
		verifrt.Assert(RegisterCRLWorkDirUsage(c1) == nil, "a free work_dir can be taken (also after earlier cycles)")
		e2 := RegisterCRLWorkDirUsage(c2)
		verifrt.Assert((e2 != nil) == (d1 == d2), "a second validator is refused exactly when it names the same work_dir")
		verifrt.Assert(RegisterCRLWorkDirUsage(c1) != nil, "a work_dir in use is refused")
		DeregisterCRLWorkDirUsage(c1)
		if e2 == nil {
			DeregisterCRLWorkDirUsage(c2)
		}
	}
	verifrt.Reach("cycles")
}
