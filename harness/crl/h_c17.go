package crl

import (
	"go.uber.org/zap"

	"github.com/gr33nbl00d/caddy-revocation-validator/config"
	"github.com/gr33nbl00d/caddy-revocation-validator/crl/crlrepository"
	"github.com/gr33nbl00d/caddy-revocation-validator/zz_verif/verifrt"
)

// VerifC17_StorageChoice: the memory bound of the whole path holds "with disk storage" - so the storage the
// validator actually opens must be the one the configuration names. For every state the configuration parser
// can leave behind (decided under C19: storage_type omitted -> disk, "disk" -> disk, "memory" -> memory; anything
// else never reaches provisioning) the real Provision builds its repository on the LevelDB backend exactly when
// the storage type is disk - in particular when the option was OMITTED - and on the map backend for memory.
func VerifC17_StorageChoice() {
	worldUp()
	raw := []string{"", "disk", "memory"}[verifrt.Choose(3)]
	parsed := config.Disk
	if raw == "memory" {
		parsed = config.Memory
	}
	cfg := &config.CRLConfig{WorkDir: "/work", StorageType: raw, StorageTypeParsed: parsed,
		CDPConfig: &config.CDPConfig{}, UpdateIntervalParsed: 1800e9}
	c := &CRLRevocationChecker{}
	err := c.Provision(cfg, zap.NewNop())
	verifrt.DropSpawned()
	verifrt.Assert(err == nil && c.crlRepository != nil, "provisioning without configured lists succeeds")
	if err != nil || c.crlRepository == nil {
		return
	}
	verifrt.Reach("storage-chosen")
	verifrt.Assert(c.crlRepository.VerifOnDisk() == (parsed == config.Disk), "the repository is on the LevelDB backend exactly when the configured storage is disk (also when storage_type is omitted)")
	var _ = crlrepository.VerifInstallWorld
}
