package crl

import (
	"github.com/gr33nbl00d/caddy-revocation-validator/config"
	"github.com/gr33nbl00d/caddy-revocation-validator/crl/crlrepository"
	"github.com/gr33nbl00d/caddy-revocation-validator/zz_verif/verifrt"
)

// VerifC09_Checker: the storage failure reaches the CALLER of CRLRevocationChecker.IsRevoked. A list is in
// force (known through the certificate's distribution point or through crl_urls), then the database may
// fail its reads, or its records are damaged. Whatever the presented certificate carries - no
// distribution point, the known one, one of a scheme that cannot be fetched - and strict or not: the
// answer for a listed certificate is never "not revoked", and an answer given without an error is the exact one.
// In particular non-strict mode, which forgives an unobtainable distribution point, does not forgive a
// store that cannot be read.
func VerifC09_Checker() {
	strict := verifrt.Choose(2) == 1
	fetch := config.CRLFetchMode(verifrt.Choose(2))
	worldUp()
	listed, probe := sym("listed"), sym("probe")
	crlrepository.VerifSetServer(urlA, true, crlrepository.VerifNewCRL("A", "CN=I1", listed))
	configured := verifrt.Choose(2) == 1
	var urls []string
	if configured {
		urls = []string{urlA}
	}
	c, perr := provisionChecker(true, fetch, strict, config.SignatureValidationModeVerify, urls, nil)
	verifrt.Assume(perr == nil)
	if !configured {
		first := crlrepository.VerifCert("CN=I1", listed, urlA)
		_, _ = c.IsRevoked(first, chainFor(first))
		verifrt.RunSpawned()
	}
	// the list is in force
	chk := crlrepository.VerifCert("CN=I1", listed)
	st0, err0 := c.IsRevoked(chk, chainFor(chk))
	verifrt.Assume(err0 == nil && st0 != nil && st0.Revoked)
	fault := verifrt.Choose(2)
	switch fault {
	case 0: // every read of the database fails from now on
		verifrt.GetFaults = true
	case 1: // every record is damaged (truncated / not a record)
		garbage := [][]byte{{}, {0x30}, {0xEE}}[verifrt.Choose(3)]
		for _, d := range verifrt.Disk {
			for i := range d.KV {
				d.KV[i].V = garbage
			}
		}
	}
	var cdp []string
	switch verifrt.Choose(3) {
	case 1:
		cdp = []string{urlA}
	case 2:
		cdp = []string{"ldap://directory.example/cn=ca?certificateRevocationList"}
	}
	pc := crlrepository.VerifCert("CN=I1", probe, cdp...)
	st, err := c.IsRevoked(pc, chainFor(pc))
	verifrt.DropSpawned()
	verifrt.Reach("lookup-under-fault")
	isListed := probe.Cmp(listed) == 0
	accepted := err == nil && st != nil && !st.Revoked
	verifrt.Assert(verifrt.Implies(isListed, !accepted), "a listed certificate is never answered 'not revoked' while its store cannot be read (strict or not, with or without distribution points)")
	if fault == 0 && err == nil {
		// reads MAY fail: without an error the answer is the exact one - a read fault was not turned into an answer
		verifrt.Assert(st != nil && st.Revoked == isListed, "failing database reads surface as an error of the checker; an answer without error is the exact one")
	}
}
