package crl

import (
	"math/big"

	"github.com/gr33nbl00d/caddy-revocation-validator/config"
	"github.com/gr33nbl00d/caddy-revocation-validator/crl/crlrepository"
	"github.com/gr33nbl00d/caddy-revocation-validator/zz_verif/verifrt"
)

const fileC = "/etc/crl/c.crl"

// VerifC01_Sources (links L3 + the checker): CRLs taken from crl_urls, crl_files and the
// certificate's own distribution points, each accepted or not; entries of the repository are
// visited in every map order. Whenever a list in force names the presented certificate's serial
// under its issuer, CRLRevocationChecker.IsRevoked answers 'revoked' or an error - wherever the
// certificate's own distribution points point (nowhere, to that list, elsewhere), strict or not.
func VerifC01_Sources() {
	strict := verifrt.Choose(2) == 1
	sig := config.SignatureValidationModeVerify
	disk := verifrt.Param("disk", 0) == 1
	worldUp()
	target := sym("target")
	other := sym("other")
	// three publications; which of them list the target is a free choice
	lists := []int{0, 1, 2, 4, 7}[verifrt.Choose(verifrt.Param("listsets", 4))]
	mk := func(bit uint, name string) *crlrepository.VerifCRL {
		if lists&(1<<bit) != 0 {
			return crlrepository.VerifNewCRL(name, "CN=I1", other, target)
		}
		return crlrepository.VerifNewCRL(name, "CN=I1", other)
	}
	pubA, pubB, pubC := mk(0, "A"), mk(1, "B"), mk(2, "C")
	// B (configured URL) may be unacceptable: then the validator does not come up (verify mode)
	bGood := verifrt.Choose(2) == 1
	if !bGood {
		pubB.SetSigOK(false)
	}
	crlrepository.VerifSetServer(urlA, true, pubA)
	crlrepository.VerifSetServer(urlB, true, pubB)
	crlrepository.VerifSetServer(fileC, true, pubC)
	// the real Provision takes the configured URL and file in
	c, perr := provisionChecker(disk, config.CRLFetchModeActively, strict, sig, []string{urlB}, []string{fileC})
	verifrt.Assert((perr == nil) == bGood, "provisioning succeeds iff the configured CRLs are acceptable")
	if perr != nil {
		verifrt.Reach("provision-refused")
		return
	}
	// optionally: a later refresh of the configured file delivers a list with a bad signature. It is rejected
	// (verify mode), so the previously accepted list stays in force - and must still be consulted.
	if verifrt.Choose(2) == 1 {
		bad := crlrepository.VerifNewCRL("C-bad", "CN=I1", other)
		bad.SetSigOK(false)
		crlrepository.VerifSetServer(fileC, true, bad)
		c.crlRepository.UpdateCRLs()
		verifrt.Reach("refresh-rejected")
	}
	// the presented certificate: CDP nowhere / at A / at an unreachable location
	var cdp []string
	switch verifrt.Choose(3) {
	case 1:
		cdp = []string{urlA}
	case 2:
		cdp = []string{"http://unreachable/crl"}
	}
	cert := crlrepository.VerifCert("CN=I1", target, cdp...)
	verifrt.MapOrders(true) // the lookup walks the repository map in every order
	st, err := c.IsRevoked(cert, chainFor(cert))
	inForceLists := (bGood && pubB.Listed("CN=I1", target)) || pubC.Listed("CN=I1", target) || (len(cdp) == 1 && cdp[0] == urlA && pubA.Listed("CN=I1", target))
	if inForceLists {
		verifrt.Reach("listed-in-force")
		verifrt.Assert(err != nil || (st != nil && st.Revoked), "a certificate listed by a CRL in force is rejected")
	} else {
		verifrt.Reach("not-listed")
	}
	var _ *big.Int
}
