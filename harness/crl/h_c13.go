package crl

import (
	"crypto/x509"
	"math/big"

	"github.com/gr33nbl00d/caddy-revocation-validator/config"
	"github.com/gr33nbl00d/caddy-revocation-validator/core"
	"github.com/gr33nbl00d/caddy-revocation-validator/crl/crlrepository"
	"github.com/gr33nbl00d/caddy-revocation-validator/zz_verif/verifrt"
)

var stateNames = []string{"loaded", "loaded+sigfailed", "pending", "empty"}
var opNames = []string{"handshake-cdp", "handshake-nocdp", "tick", "background-load", "config-update", "cleanup"}

type c13World struct {
	strict   bool
	srv      int    // server state during the operations: 0 down, 1 bad signature, 2 good
	accepted []bool // verdicts of the handshakes that name the distribution point
	acceptedNoCDP []bool // verdicts of the handshakes of a certificate without distribution points
	s1       *big.Int
	c      *CRLRevocationChecker
	fetch  config.CRLFetchMode
	state  int
	probe  *big.Int
	cert   *x509.Certificate
	loc    *core.CRLLocations
	chains *core.CertificateChains
}

// c13Setup: pre-state {loaded, loaded + last refresh failed signature verification, added-but-not-
// loaded, empty} x fetch mode x strict, then an arbitrary server state for the operations to come.
func c13Setup() *c13World {
	w := &c13World{}
	w.fetch = config.CRLFetchMode(verifrt.Choose(2))
	w.strict = verifrt.Choose(2) == 1
	if verifrt.Param("trusted", 0) == 1 {
		// a configured trusted CRL signer (unrelated to the lists in play): state every handshake shares
		trustedForNext = []*x509.Certificate{{}}
	}
	w.c = newChecker(verifrt.Param("disk", 0) == 1, w.fetch, w.strict, config.SignatureValidationModeVerify)
	c := w.c
	s1, probe := sym("s1"), sym("probe")
	w.probe = probe
	w.s1 = s1
	good := crlrepository.VerifNewCRL("GOOD", "CN=I1", s1)
	crlrepository.VerifSetServer(urlA, true, good)
	cert := crlrepository.VerifCert("CN=I1", probe, urlA)
	w.cert = cert
	w.loc = &core.CRLLocations{CRLDistributionPoints: []string{urlA}}
	w.chains = core.NewCertificateChains(chainFor(cert), nil)
	w.state = verifrt.Choose(4)
	switch w.state {
	case 0, 1:
		_, _ = c.IsRevoked(cert, chainFor(cert))
		verifrt.RunSpawned()
		if w.state == 1 {
			// the refreshed list was signed with a new CA key: the stored signer does not verify it,
			// a chain presented by a later handshake does (key rollover)
			rolled := crlrepository.VerifNewCRL("ROLLED", "CN=I1", s1)
			rolled.SetNeedsIssuerCA(true)
			crlrepository.VerifSetServer(urlA, true, rolled)
			c.crlRepository.UpdateCRLs()
		}
	case 2:
		if w.fetch != config.CRLFetchModeBackground {
			// in active mode "added but not loaded" = the first download failed
			crlrepository.VerifSetServer(urlA, false, nil)
		}
		_, _ = c.IsRevoked(cert, chainFor(cert))
		verifrt.DropSpawned()
	case 3:
	}
	// server state during the operation
	w.srv = verifrt.Choose(3)
	switch w.srv {
	case 0:
		crlrepository.VerifSetServer(urlA, false, nil)
	case 1:
		bad := crlrepository.VerifNewCRL("BAD", "CN=I1", s1)
		bad.SetSigOK(false)
		crlrepository.VerifSetServer(urlA, true, bad)
	case 2:
		crlrepository.VerifSetServer(urlA, true, crlrepository.VerifNewCRL("NEXT", "CN=I1", s1))
	}
	return w
}

// listedVerdicts: with active fetching and a good server every list that can be in force for the distribution
// point lists s1 (GOOD, ROLLED, NEXT) - so a handshake presenting serial s1 and naming it is rejected in
// every sequential order of the operations, hence under every interleaving
func (w *c13World) listedVerdicts(involvesCleanup bool) {
	if involvesCleanup {
		return
	}
	isListed := w.probe.Cmp(w.s1) == 0
	if w.state <= 1 {
		// a list naming s1 is in force before the operations, and every list that can replace it names s1 too:
		// a handshake of serial s1 is rejected whether or not its certificate carries distribution points
		for _, acc := range w.acceptedNoCDP {
			verifrt.Assert(verifrt.Implies(isListed, !acc), "a certificate listed by a list in force is rejected under every interleaving (also while that list is being refreshed)")
		}
	}
	if w.fetch != config.CRLFetchModeActively || w.srv != 2 {
		return
	}
	for _, acc := range w.accepted {
		verifrt.Assert(verifrt.Implies(isListed, !acc), "a handshake whose certificate is listed by the distribution point's (obtainable) list is rejected under every interleaving")
	}
}

func (w *c13World) run(op int) {
	c := w.c
	switch op {
	case 0:
		st, err := c.IsRevoked(w.cert, chainFor(w.cert))
		w.accepted = append(w.accepted, err == nil && st != nil && !st.Revoked)
	case 1:
		c2 := crlrepository.VerifCert("CN=I1", w.probe)
		st, err := c.IsRevoked(c2, chainFor(c2))
		w.acceptedNoCDP = append(w.acceptedNoCDP, err == nil && st != nil && !st.Revoked)
	case 2:
		c.updateCRLs(false)
	case 3:
		c.updateCRLs(true)
	case 4:
		_ = c.crlRepository.UpdateCRL(w.loc, w.chains)
	case 5:
		_ = c.Cleanup()
	}
}

// VerifC13_Ops: from every pre-state {loaded, loaded + last refresh failed signature verification,
// added-but-not-loaded, empty} x fetch mode, run ONE API operation with an arbitrary server state.
//   per operation (engine obligations): no lock is re-acquired while held, every lock is released
//   on every exit, no panic;
//   per pair of operations from the same pre-state (schedule query): no two accesses to the same
//   field of the code under test, one of them a write, can coincide.
func VerifC13_Ops() {
	w := c13Setup()
	op := verifrt.Choose(len(opNames))
	fm := "active"
	if w.fetch == config.CRLFetchModeBackground {
		fm = "background"
	}
	verifrt.TraceBegin(stateNames[w.state] + "+" + fm + "/" + opNames[op])
	w.run(op)
	verifrt.TraceEnd()
	verifrt.Assert(verifrt.LocksHeld() == 0, "every lock released when the operation returns")
	if op != 5 {
		ok, _ := w.c.crlRepository.VerifConsistent()
		verifrt.Assert(ok, "the repository is consistent when the operation returns")
	}
	verifrt.DropSpawned()
	verifrt.Reach(opNames[op])
}

// VerifC13_Interleave: two API operations A and B from the same pre-state, B running to completion at
// a context switch placed before A's k-th lock acquisition (k = 0..maxlocks-1; every lock boundary of A
// is a switch point, schedules in which B would have to wait for a lock A holds are dropped), then A
// continues; finally the goroutines either of them started run. Whatever A observed before the
// switch may be stale afterwards: no panic, no deadlock, no lock left held, on every such schedule.
func VerifC13_Interleave() {
	w := c13Setup()
	a := verifrt.Choose(len(opNames))
	b := verifrt.Choose(len(opNames))
	if a == 5 && b == 5 {
		return // Cleanup is called once per validator instance (caddy module contract)
	}
	k := verifrt.Choose(verifrt.Param("maxlocks", 6))
	verifrt.PreemptAtLock(k, func() { w.run(b) })
	w.run(a)
	if !verifrt.PreemptRan() {
		// A takes fewer than k+1 locks: nothing new to see on this path
		return
	}
	verifrt.Assert(verifrt.LocksHeld() == 0, "every lock released when both operations have returned")
	verifrt.RunSpawned()
	verifrt.Assert(verifrt.LocksHeld() == 0, "every lock released after the background work")
	if w.strict && w.state >= 2 && w.srv != 2 {
		// no list of this distribution point was ever in force and none can be obtained now: whatever the
		// schedule, strict mode denies (C10 under interleaving; a verdict no sequential order produces)
		for _, acc := range w.accepted {
			verifrt.Assert(!acc, "strict: a handshake is never accepted while no CRL of its distribution point has ever been in force, under any interleaving")
		}
	}
	w.listedVerdicts(a == 5 || b == 5)
	if a != 5 && b != 5 {
		ok, _ := w.c.crlRepository.VerifConsistent()
		verifrt.Assert(ok, "the repository is consistent after the interleaving (every entry has loader and store; loaded entries hold a list)")
	}
	verifrt.Reach("interleaved")
}

// VerifC13_SpawnRace: one API operation from every pre-state, where the goroutine it starts (the forced
// background load a handshake triggers for a new distribution point) runs AT ONCE as a second thread:
// it goes as far as it can - typically into its download, holding the entry lock - then the spawning
// handshake continues, and the two alternate whenever one has to wait for the other's lock. No panic,
// no deadlock, no lock left held, the repository consistent, and in strict mode no acceptance while
// no list of the distribution point has ever been in force.
func VerifC13_SpawnRace() {
	w := c13Setup()
	a := verifrt.Choose(len(opNames))
	verifrt.SpawnAsThread(true)
	w.run(a)
	ran := verifrt.JoinThread()
	verifrt.SpawnAsThread(false)
	if !ran {
		return // the operation started no goroutine
	}
	verifrt.Assert(verifrt.LocksHeld() == 0, "every lock released when the operation and its goroutine have returned")
	verifrt.RunSpawned()
	if w.strict && w.state >= 2 && w.srv != 2 {
		for _, acc := range w.accepted {
			verifrt.Assert(!acc, "strict: a handshake is never accepted while no CRL of its distribution point has ever been in force, whatever its own background load is doing")
		}
	}
	w.listedVerdicts(a == 5)
	if a != 5 {
		ok, _ := w.c.crlRepository.VerifConsistent()
		verifrt.Assert(ok, "the repository is consistent afterwards")
	}
	verifrt.Reach("spawn-race")
}
