package crl

import (
	"github.com/gr33nbl00d/caddy-revocation-validator/config"
	"github.com/gr33nbl00d/caddy-revocation-validator/core"
	"github.com/gr33nbl00d/caddy-revocation-validator/crl/crlrepository"
	"github.com/gr33nbl00d/caddy-revocation-validator/zz_verif/verifrt"
)

var stateNames = []string{"loaded", "loaded+sigfailed", "pending", "empty"}
var opNames = []string{"handshake-cdp", "handshake-nocdp", "tick", "background-load", "config-update", "cleanup"}

// VerifC13_Ops: from every pre-state {loaded, loaded + last refresh failed signature verification,
// added-but-not-loaded, empty} x fetch mode, run ONE API operation with an arbitrary server state.
//   per operation (engine obligations): no lock is re-acquired while held, every lock is released
//   on every exit, no panic;
//   per pair of operations from the same pre-state (schedule query): no two accesses to the same
//   field of the code under test, one of them a write, can coincide.
func VerifC13_Ops() {
	fetch := config.CRLFetchMode(verifrt.Choose(2))
	c := newChecker(verifrt.Param("disk", 0) == 1, fetch, verifrt.Choose(2) == 1, config.SignatureValidationModeVerify)
	s1, probe := sym("s1"), sym("probe")
	good := crlrepository.VerifNewCRL("GOOD", "CN=I1", s1)
	crlrepository.VerifSetServer(urlA, true, good)
	cert := crlrepository.VerifCert("CN=I1", probe, urlA)
	loc := &core.CRLLocations{CRLDistributionPoints: []string{urlA}}
	chains := core.NewCertificateChains(chainFor(cert), nil)
	state := verifrt.Choose(4)
	switch state {
	case 0, 1:
		_, _ = c.IsRevoked(cert, chainFor(cert))
		verifrt.RunSpawned()
		if state == 1 {
			// the refreshed list was signed with a new CA key: the stored signer does not verify it,
			// a chain presented by a later handshake does (key rollover)
			rolled := crlrepository.VerifNewCRL("ROLLED", "CN=I1", s1)
			rolled.SetNeedsIssuerCA(true)
			crlrepository.VerifSetServer(urlA, true, rolled)
			c.crlRepository.UpdateCRLs()
		}
	case 2:
		if fetch != config.CRLFetchModeBackground {
			// in active mode "added but not loaded" = the first download failed
			crlrepository.VerifSetServer(urlA, false, nil)
		}
		_, _ = c.IsRevoked(cert, chainFor(cert))
		verifrt.DropSpawned()
	case 3:
	}
	// server state during the operation
	switch verifrt.Choose(3) {
	case 0:
		crlrepository.VerifSetServer(urlA, false, nil)
	case 1:
		bad := crlrepository.VerifNewCRL("BAD", "CN=I1", s1)
		bad.SetSigOK(false)
		crlrepository.VerifSetServer(urlA, true, bad)
	case 2:
		crlrepository.VerifSetServer(urlA, true, crlrepository.VerifNewCRL("NEXT", "CN=I1", s1))
	}
	op := verifrt.Choose(len(opNames))
	fm := "active"
	if fetch == config.CRLFetchModeBackground {
		fm = "background"
	}
	verifrt.TraceBegin(stateNames[state] + "+" + fm + "/" + opNames[op])
	switch op {
	case 0:
		_, _ = c.IsRevoked(cert, chainFor(cert))
	case 1:
		c2 := crlrepository.VerifCert("CN=I1", probe)
		_, _ = c.IsRevoked(c2, chainFor(c2))
	case 2:
		c.updateCRLs(false)
	case 3:
		c.updateCRLs(true)
	case 4:
		_ = c.crlRepository.UpdateCRL(loc, chains)
	case 5:
		_ = c.Cleanup()
	}
	verifrt.TraceEnd()
	verifrt.Assert(verifrt.LocksHeld() == 0, "every lock released when the operation returns")
	verifrt.DropSpawned()
	verifrt.Reach(opNames[op])
}
