package crl

import (
	"crypto/x509"
	"go.uber.org/zap"
	"github.com/gr33nbl00d/caddy-revocation-validator/config"
	"github.com/gr33nbl00d/caddy-revocation-validator/crl/crlrepository"
	"github.com/gr33nbl00d/caddy-revocation-validator/zz_verif/verifrt"
)

// VerifC16_ProvisionRestart: a configured CRL (crl_url or crl_file) is provisioned on disk storage and
// accepted; the process restarts on the same work_dir; at the second provisioning the list the origin
// serves does or does not verify under the trust configured NOW (a trusted signer was replaced, the
// list was re-signed, ...). The signature policy means at the restart what it means on an empty work_dir:
//   verify     : provisioning fails when the list does not verify - the persisted copy is not silently kept in force
//   verify_log / none : provisioning succeeds and the list is in force
func VerifC16_ProvisionRestart() {
	fetch := config.CRLFetchMode(verifrt.Choose(2))
	sig := config.SignatureValidationMode(verifrt.Choose(3))
	crlrepository.VerifInstallWorld()
	verifrt.InstallDirListing()
	crlrepository.VerifInstallRepoConstructor()
	cfg := &config.CRLConfig{WorkDir: "/work", StorageTypeParsed: config.Disk, CDPConfig: &config.CDPConfig{CRLFetchModeParsed: fetch}, SignatureValidationModeParsed: sig, UpdateIntervalParsed: 1800e9}
	s1 := sym("s1")
	loc := urlB
	if verifrt.Choose(2) == 1 {
		loc = fileC
		cfg.CRLFiles = []string{fileC}
	} else {
		cfg.CRLUrls = []string{urlB}
	}
	first := crlrepository.VerifNewCRL("L", "CN=I1", s1)
	crlrepository.VerifSetServer(loc, true, first)
	rawLikeParsed(cfg)
	c := &CRLRevocationChecker{}
	err := c.Provision(cfg, zap.NewNop())
	verifrt.Assert(err == nil, "run 1: an acceptable configured CRL provisions")
	verifrt.DropSpawned()
	// the process dies and is started again on the same work_dir (all process state is gone)
	verifrt.Reboot()
	DeregisterCRLWorkDirUsage(cfg)
	again := crlrepository.VerifNewCRL("L", "CN=I1", s1)
	verifiesNow := verifrt.Choose(2) == 1
	again.SetSigOK(verifiesNow)
	crlrepository.VerifSetServer(loc, true, again)
	c = &CRLRevocationChecker{}
	err = c.Provision(cfg, zap.NewNop())
	verifrt.DropSpawned()
	verifrt.Reach("second-provisioning")
	if sig == config.SignatureValidationModeVerify && !verifiesNow {
		verifrt.Assert(err != nil, "verify: a configured CRL that does not verify under the current trust fails provisioning also after a restart")
		return
	}
	verifrt.Assert(err == nil, "an acceptable configured CRL provisions after a restart")
	if err == nil {
		cc := crlrepository.VerifCert("CN=I1", s1)
		st, lerr := c.crlRepository.IsRevoked(cc, nil)
		verifrt.Assert(lerr == nil && st != nil && st.Revoked, "and is in force when provisioning returns")
	}
}

// VerifC16_TrustedSigner: 'verify' with a configured trusted CRL signer (trusted_signature_cert_file) means the
// same on every intake path. The list is signed by the configured signer's key, which no presented chain
// carries (a dedicated CRL-signing certificate). Whether the list is taken in as a configured crl_url at
// provisioning or as a certificate's distribution point during a handshake (actively or in the background):
// it verifies, comes into force, and the certificate it lists is rejected.
func VerifC16_TrustedSigner() {
	worldUp()
	fetch := config.CRLFetchMode(verifrt.Choose(2))
	s1, other := sym("s1"), sym("other")
	signer := crlrepository.VerifCAWithKey(7)
	l := crlrepository.VerifNewCRL("L", "CN=I1", s1)
	l.SetSignedBy(7)
	crlrepository.VerifSetServer(urlA, true, l)
	viaCDP := verifrt.Choose(2) == 1
	var urls []string
	if !viaCDP {
		urls = []string{urlA}
	}
	trustedForNext = []*x509.Certificate{signer}
	c, perr := provisionChecker(verifrt.Param("disk", 0) == 1, fetch, false, config.SignatureValidationModeVerify, urls, nil)
	verifrt.Assert(perr == nil, "provisioning succeeds (a configured CRL signed by the trusted signer verifies)")
	if perr != nil {
		return
	}
	if viaCDP {
		first := crlrepository.VerifCert("CN=I1", other, urlA)
		_, _ = c.IsRevoked(first, chainFor(first))
		verifrt.RunSpawned()
	}
	probe := crlrepository.VerifCert("CN=I1", s1)
	st, err := c.IsRevoked(probe, chainFor(probe))
	verifrt.DropSpawned()
	verifrt.Reach("trusted-signer")
	verifrt.Assert(err == nil && st != nil && st.Revoked, "a CRL signed by the configured trusted signer is in force under 'verify' on this intake path as on every other")
}
