package crl

import (
	"github.com/gr33nbl00d/caddy-revocation-validator/config"
	"github.com/gr33nbl00d/caddy-revocation-validator/core"
	"github.com/gr33nbl00d/caddy-revocation-validator/crl/crlrepository"
	"github.com/gr33nbl00d/caddy-revocation-validator/zz_verif/verifrt"
)

// VerifC16_ProvisionRestart: a configured CRL (crl_url or crl_file) is provisioned on disk storage and
// accepted; the process restarts on the same work_dir; at the second provisioning the list the origin
// serves does or does not verify under the trust configured NOW (a trusted signer was replaced, the
// list was re-signed, ...). The signature policy means at the restart what it means on an empty work_dir:
//   verify     : provisioning fails when the list does not verify - the persisted copy is not silently kept in force
//   verify_log / none : provisioning succeeds and the list is in force
func VerifC16_ProvisionRestart() {
	fetch := config.CRLFetchMode(verifrt.Choose(2))
	sig := config.SignatureValidationMode(verifrt.Choose(3))
	c := newChecker(true, fetch, false, sig)
	verifrt.InstallDirListing()
	s1 := sym("s1")
	useFile := verifrt.Choose(2) == 1
	loc := urlB
	if useFile {
		loc = fileC
		c.crlConfig.CRLFiles = []string{fileC}
	} else {
		c.crlConfig.CRLUrls = []string{urlB}
	}
	provision := func() error {
		chains := core.NewCertificateChains(nil, nil)
		if useFile {
			return c.addCrlFilesFromConfig(chains)
		}
		return c.addCrlUrlsFromConfig(chains)
	}
	first := crlrepository.VerifNewCRL("L", "CN=I1", s1)
	crlrepository.VerifSetServer(loc, true, first)
	err := provision()
	verifrt.Assert(err == nil, "run 1: an acceptable configured CRL provisions")
	verifrt.RunSpawned()
	// restart on the same work_dir
	verifrt.Reboot()
	c.crlRepository = crlrepository.VerifNewRepo(true, c.crlConfig)
	c.crlRepository.DeleteTempFilesIfExist()
	again := crlrepository.VerifNewCRL("L", "CN=I1", s1)
	verifiesNow := verifrt.Choose(2) == 1
	again.SetSigOK(verifiesNow)
	crlrepository.VerifSetServer(loc, true, again)
	err = provision()
	verifrt.RunSpawned()
	verifrt.Reach("second-provisioning")
	cc := crlrepository.VerifCert("CN=I1", s1)
	st, lerr := c.crlRepository.IsRevoked(cc, nil)
	inForce := lerr == nil && st != nil && st.Revoked
	if sig == config.SignatureValidationModeVerify && !verifiesNow {
		verifrt.Assert(err != nil, "verify: a configured CRL that does not verify under the current trust fails provisioning also after a restart")
	} else {
		verifrt.Assert(err == nil, "an acceptable configured CRL provisions after a restart")
		verifrt.Assert(inForce, "and is in force when provisioning returns")
	}
	verifrt.DropSpawned()
}
