package crl

import (
	"go.uber.org/zap"
	"crypto/x509"
	"math/big"

	"github.com/gr33nbl00d/caddy-revocation-validator/config"
	"github.com/gr33nbl00d/caddy-revocation-validator/crl/crlrepository"
	"github.com/gr33nbl00d/caddy-revocation-validator/zz_verif/verifrt"
)

const (
	urlA = "http://a/crl"
	urlB = "https://b/crl"
	ldap = "ldap://dir/cn=crl"
)

// newChecker: a validator's CRL checker brought up by the REAL Provision (work_dir registration, repository
// construction, start-up sweep, ticker) - so whatever provisioning prepares is prepared in every harness.
// The ticker goroutine it starts is dropped (channels are not encodable); ticks are driven by the harnesses.
func newChecker(disk bool, fetch config.CRLFetchMode, strict bool, sig config.SignatureValidationMode) *CRLRevocationChecker {
	worldUp()
	c, err := provisionChecker(disk, fetch, strict, sig, nil, nil)
	verifrt.Assume(err == nil)
	return c
}

// worldUp: the modelled environment (CRL origins, disk, directory listing, repository constructor)
func worldUp() {
	crlrepository.VerifInstallWorld()
	verifrt.InstallDirListing()
	crlrepository.VerifInstallRepoConstructor()
}

// provisionChecker: the real Provision with the given configuration (crl_urls / crl_files included - whatever
// provisioning does with them happens here, not through internal helpers)
func provisionChecker(disk bool, fetch config.CRLFetchMode, strict bool, sig config.SignatureValidationMode, urls, files []string) (*CRLRevocationChecker, error) {
	st := config.Memory
	if disk {
		st = config.Disk
	}
	cfg := &config.CRLConfig{WorkDir: "/work", StorageTypeParsed: st, CDPConfig: &config.CDPConfig{CRLFetchModeParsed: fetch, CRLCDPStrict: strict}, SignatureValidationModeParsed: sig, UpdateIntervalParsed: 1800e9, CRLUrls: urls, CRLFiles: files}
	cfg.TrustedSignatureCerts = trustedForNext
	trustedForNext = nil
	rawLikeParsed(cfg)
	c := &CRLRevocationChecker{}
	err := c.Provision(cfg, zap.NewNop())
	verifrt.DropSpawned()
	return c, err
}

// rawLikeParsed: the option texts of a configuration, spelt out the way the configuration parser would have
// found them for the parsed values (a configuration object never holds a parsed value its text does not parse to)
func rawLikeParsed(cfg *config.CRLConfig) {
	cfg.StorageType = "disk"
	if cfg.StorageTypeParsed == config.Memory {
		cfg.StorageType = "memory"
	}
	switch cfg.SignatureValidationModeParsed {
	case config.SignatureValidationModeVerify:
		cfg.SignatureValidationMode = "verify"
	case config.SignatureValidationModeVerifyLog:
		cfg.SignatureValidationMode = "verify_log"
	case config.SignatureValidationModeNone:
		cfg.SignatureValidationMode = "none"
	}
	if cfg.CDPConfig != nil {
		cfg.CDPConfig.CRLFetchMode = "fetch_actively"
		if cfg.CDPConfig.CRLFetchModeParsed == config.CRLFetchModeBackground {
			cfg.CDPConfig.CRLFetchMode = "fetch_background"
		}
	}
}

// rebootChecker: the process died and was started again on the same work_dir: every handle, lock, goroutine
// and every process-global (the work_dir registry) is gone; the validator is provisioned anew by the real Provision.
func rebootChecker(c *CRLRevocationChecker) *CRLRevocationChecker {
	verifrt.Reboot()
	DeregisterCRLWorkDirUsage(c.crlConfig)
	cfg := c.crlConfig
	n := &CRLRevocationChecker{}
	err := n.Provision(cfg, zap.NewNop())
	verifrt.Assume(err == nil)
	verifrt.DropSpawned()
	return n
}

// trustedForNext: trusted CRL signer certificates of the next validator newChecker provisions
var trustedForNext []*x509.Certificate

func chainFor(c *x509.Certificate) [][]*x509.Certificate {
	return [][]*x509.Certificate{{c, {}}}
}

func sym(label string) *big.Int { return big.NewInt(verifrt.NondetInt64(label)) }

// acceptable: would a load of this publication be accepted under the signature policy?
func acceptable(up bool, c *crlrepository.VerifCRL, sig config.SignatureValidationMode) bool {
	if !up || c == nil || !c.Parses() {
		return false
	}
	return sig != config.SignatureValidationModeVerify || c.SigOK()
}

// VerifC10_History: bounded histories of {handshake, refresh tick, background load} over one
// distribution-point set whose server state changes between events.
//   strict : an accepted handshake implies that an acceptable CRL for the set was obtainable at some
//            earlier-or-current fetch (never accepted before the first good load, after only failed
//            loads, while the background fetch is pending, or for unsupported locations)
//   lenient: a certificate listed in no published CRL is accepted with a nil error, whatever the fetches did
func VerifC10_History() {
	strict := verifrt.Choose(2) == 1
	fetch := config.CRLFetchMode(verifrt.Choose(2))
	sig := config.SignatureValidationMode(verifrt.Choose(3))
	disk := verifrt.Param("disk", 0) == 1
	c := newChecker(disk, fetch, strict, sig)
	verifrt.InstallDirListing()
	shape := verifrt.Choose(4)
	var cdp []string
	switch shape {
	case 0:
		cdp = []string{urlA}
	case 1:
		cdp = []string{ldap}
	case 2:
		cdp = []string{ldap, urlA}
	case 3:
		cdp = []string{urlA, urlB}
	}
	listedSerial := sym("listed")
	probe := sym("probe")
	verifrt.Assume(probe.Cmp(listedSerial) != 0)
	everAcceptable := false
	H := verifrt.Param("H", 3)
	n := 1 + verifrt.Choose(H)
	for ev := 0; ev < n; ev++ {
		// server state for this event
		state := verifrt.Choose(4) // 0 down, 1 garbage, 2 bad signature, 3 good
		pub := crlrepository.VerifNewCRL("pub", "CN=I1", listedSerial)
		up := state != 0
		var body *crlrepository.VerifCRL
		if state >= 2 {
			body = pub
		}
		if state == 2 {
			pub.SetSigOK(false)
		}
		crlrepository.VerifSetServer(urlA, up, body)
		crlrepository.VerifSetServer(urlB, up, body)
		nkinds := 3
		if disk {
			nkinds = 4 // with disk storage the process may also restart between events
		}
		kind := verifrt.Choose(nkinds)
		before := crlrepository.VerifLoadCalls()
		switch kind {
		case 0: // handshake with an unlisted certificate
			cert := crlrepository.VerifCert("CN=I1", probe, cdp...)
			st, err := c.IsRevoked(cert, chainFor(cert))
			fetched := crlrepository.VerifLoadCalls() > before
			if fetched && shape != 1 && acceptable(up, body, sig) {
				everAcceptable = true
			}
			accepted := err == nil && st != nil && !st.Revoked
			if strict {
				verifrt.Assert(!accepted || everAcceptable, "strict: accepted only after an acceptable CRL for the set was loaded")
				if accepted {
					verifrt.Reach("strict-accepted")
				} else {
					verifrt.Reach("strict-denied")
				}
			} else {
				verifrt.Reach("lenient")
				verifrt.Assert(accepted, "lenient: an unlisted certificate is never denied because of its distribution points")
			}
		case 1: // periodic refresh tick
			c.crlRepository.UpdateCRLs()
			if crlrepository.VerifLoadCalls() > before && shape != 1 && acceptable(up, body, sig) {
				everAcceptable = true
			}
		case 2: // pending background loads run now
			verifrt.RunSpawned()
			if crlrepository.VerifLoadCalls() > before && shape != 1 && acceptable(up, body, sig) {
				everAcceptable = true
			}
		case 3: // restart: handles and pending goroutines are gone, the work_dir stays; Provision's start-up steps run
			c = rebootChecker(c)
		}
	}
	verifrt.DropSpawned()
}

// VerifC10_RestartAfterFailedLoad: disk storage. A first load of the distribution-point CRL that
// does not succeed (server down, garbage, bad signature, or a background fetch that never ran),
// then a restart, then a handshake while the server is down: strict mode must still deny, in both
// fetch modes - nothing left behind by the failed attempt may count as a loaded CRL.
func VerifC10_RestartAfterFailedLoad() {
	fetch := config.CRLFetchMode(verifrt.Choose(2))
	c := newChecker(true, fetch, true, config.SignatureValidationModeVerify)
	verifrt.InstallDirListing()
	listedSerial, probe := sym("listed"), sym("probe")
	verifrt.Assume(probe.Cmp(listedSerial) != 0)
	pub := crlrepository.VerifNewCRL("pub", "CN=I1", listedSerial)
	switch verifrt.Choose(4) {
	case 0:
		crlrepository.VerifSetServer(urlA, false, nil)
	case 1:
		crlrepository.VerifSetServer(urlA, true, nil)
	case 2:
		pub.SetSigOK(false)
		crlrepository.VerifSetServer(urlA, true, pub)
	case 3:
		pub.SetRejectAtEnd(true)
		crlrepository.VerifSetServer(urlA, true, pub)
	}
	cert := crlrepository.VerifCert("CN=I1", probe, urlA)
	st, err := c.IsRevoked(cert, chainFor(cert))
	verifrt.Assert(err != nil || st == nil || st.Revoked, "strict: denied while no acceptable CRL was loaded")
	if verifrt.Choose(2) == 1 {
		verifrt.RunSpawned() // the background job runs (and fails) before the restart
	}
	c = rebootChecker(c)
	crlrepository.VerifSetServer(urlA, false, nil)
	st, err = c.IsRevoked(cert, chainFor(cert))
	verifrt.Reach("after-restart")
	verifrt.Assert(err != nil || st == nil || st.Revoked, "strict: still denied after a restart when the CRL was never successfully loaded")
	verifrt.DropSpawned()
}

// VerifC10_FirstLoadFault: disk storage, strict mode, a good server, and one injected storage fault
// at ANY effect of the first load (staging store, inserts, swap). Whatever fails: a strict handshake
// is accepted only if the downloaded list really is in force (its entries are honoured).
func VerifC10_FirstLoadFault() {
	fetch := config.CRLFetchMode(verifrt.Choose(2))
	c := newChecker(true, fetch, true, config.SignatureValidationModeVerify)
	listedSerial, probe := sym("listed"), sym("probe")
	verifrt.Assume(probe.Cmp(listedSerial) != 0)
	crlrepository.VerifSetServer(urlA, true, crlrepository.VerifNewCRL("pub", "CN=I1", listedSerial))
	verifrt.FaultBudget = 1
	verifrt.CloseFaults = true
	cert := crlrepository.VerifCert("CN=I1", probe, urlA)
	st, err := c.IsRevoked(cert, chainFor(cert))
	verifrt.RunSpawned()
	verifrt.FaultBudget = 0
	// a second handshake (the fault is over), with the revoked certificate this time
	bad := crlrepository.VerifCert("CN=I1", listedSerial, urlA)
	st2, err2 := c.IsRevoked(bad, chainFor(bad))
	verifrt.Reach("after-fault")
	verifrt.Assert(err2 != nil || (st2 != nil && st2.Revoked), "strict: a certificate listed by the distribution-point CRL is never accepted, whatever failed during the first load")
	_, _ = st, err
	verifrt.DropSpawned()
}
