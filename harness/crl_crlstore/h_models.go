package crlstore

import (
	"crypto/x509"
	"crypto/x509/pkix"
	"math/big"

	"github.com/gr33nbl00d/caddy-revocation-validator/core"
	"github.com/gr33nbl00d/caddy-revocation-validator/crl/crlreader"
	"github.com/gr33nbl00d/caddy-revocation-validator/zz_verif/verifrt"
)

const modRoot = "github.com/gr33nbl00d/caddy-revocation-validator"

// modelSerializer: a lossless, injective encoding (object registry). encoding/asn1 is reflection
// based and cannot be encoded; the ASN.1 half of C18 is not claimed.
type modelSerializer struct{}

var objs []interface{}

func reg(o interface{}) []byte {
	objs = append(objs, o)
	return []byte{0xEE, byte(len(objs) - 1)}
}

func lookupObj(b []byte) (interface{}, bool) {
	if len(b) != 2 || b[0] != 0xEE || int(b[1]) >= len(objs) {
		return nil, false
	}
	return objs[b[1]], true
}

func (modelSerializer) SerializeMetaInfo(m *crlreader.CRLMetaInfo) ([]byte, error) { return reg(*m), nil }
func (modelSerializer) DeserializeMetaInfo(b []byte) (*crlreader.CRLMetaInfo, error) {
	o, ok := lookupObj(b)
	if !ok {
		return nil, verifrt.NewError("undecodable record")
	}
	v, ok := o.(crlreader.CRLMetaInfo)
	if !ok {
		return nil, verifrt.NewError("wrong record type")
	}
	return &v, nil
}
func (modelSerializer) SerializeRevokedCert(r *pkix.RevokedCertificate) ([]byte, error) {
	return reg(*r), nil
}
func (modelSerializer) DeserializeRevokedCert(b []byte) (*pkix.RevokedCertificate, error) {
	o, ok := lookupObj(b)
	if !ok {
		return nil, verifrt.NewError("undecodable record")
	}
	v, ok := o.(pkix.RevokedCertificate)
	if !ok {
		return nil, verifrt.NewError("wrong record type")
	}
	return &v, nil
}
func (modelSerializer) SerializeMetaInfoExt(m *crlreader.ExtendedCRLMetaInfo) ([]byte, error) {
	return reg(*m), nil
}
func (modelSerializer) DeserializeMetaInfoExt(b []byte) (*crlreader.ExtendedCRLMetaInfo, error) {
	o, ok := lookupObj(b)
	if !ok {
		return nil, verifrt.NewError("undecodable record")
	}
	v, ok := o.(crlreader.ExtendedCRLMetaInfo)
	if !ok {
		return nil, verifrt.NewError("wrong record type")
	}
	return &v, nil
}
func (modelSerializer) DeserializeSignatureCert(b []byte) (*x509.Certificate, error) {
	o, ok := lookupObj(b)
	if !ok {
		return nil, verifrt.NewError("undecodable certificate")
	}
	v, ok := o.(*x509.Certificate)
	if !ok {
		return nil, verifrt.NewError("wrong record type")
	}
	return v, nil
}
func (modelSerializer) SerializeCRLLocations(l *core.CRLLocations) ([]byte, error) { return reg(*l), nil }
func (modelSerializer) DeserializeCRLLocations(b []byte) (*core.CRLLocations, error) {
	o, ok := lookupObj(b)
	if !ok {
		return nil, verifrt.NewError("undecodable record")
	}
	v, ok := o.(core.CRLLocations)
	if !ok {
		return nil, verifrt.NewError("wrong record type")
	}
	return &v, nil
}

// rdn builds a name whose String() is the given token (see the RDNSequence.String override).
func rdn(token string) *pkix.RDNSequence {
	r := pkix.RDNSequence{pkix.RelativeDistinguishedNameSET{pkix.AttributeTypeAndValue{Value: token}}}
	return &r
}

func installStoreModels() {
	objs = nil
	verifrt.InstallDisk()
	verifrt.Override("(crypto/x509/pkix.RDNSequence).String", func(r pkix.RDNSequence) string {
		if len(r) == 0 || len(r[0]) == 0 {
			return ""
		}
		return r[0][0].Value.(string)
	})
	// collision-free hash (the property excludes FNV collisions); Sum64 == FNV-1a is checked separately
	verifrt.Override(modRoot+"/core/hashing.Sum64", func(key string) []byte { return verifrt.UFBytes64("sum64", key) })
}

func signerEntry(tag byte) *core.CertificateChainEntry {
	c := &x509.Certificate{}
	return &core.CertificateChainEntry{RawCertificate: reg(c), Certificate: c}
}

func serial(label string) *big.Int { return big.NewInt(verifrt.NondetInt64(label)) }

// exported for the harnesses of other packages
type VerifSerializer = modelSerializer

func VerifInstallStoreModels()               { installStoreModels() }
func VerifRdn(t string) *pkix.RDNSequence    { return rdn(t) }
func VerifReg(o interface{}) []byte          { return reg(o) }
