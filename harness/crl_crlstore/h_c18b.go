package crlstore

import (
	"crypto/x509/pkix"
	"encoding/asn1"

	"github.com/gr33nbl00d/caddy-revocation-validator/crl/crlreader"
	"github.com/gr33nbl00d/caddy-revocation-validator/zz_verif/verifrt"
)

var (
	oidC  = asn1.ObjectIdentifier{2, 5, 4, 6}
	oidO  = asn1.ObjectIdentifier{2, 5, 4, 10}
	oidCN = asn1.ObjectIdentifier{2, 5, 4, 3}
	oidOU = asn1.ObjectIdentifier{2, 5, 4, 11}
)

func atv(t asn1.ObjectIdentifier, v string) pkix.AttributeTypeAndValue {
	return pkix.AttributeTypeAndValue{Type: t, Value: v}
}

// issuerShapes: pairs of DIFFERENT issuer names built from the same attribute values - they differ only in
// structure (order of the RDNs, one multi-valued RDN against two single-valued ones, a repeated attribute)
func issuerShapes(k int) (pkix.RDNSequence, pkix.RDNSequence) {
	one := func(a ...pkix.AttributeTypeAndValue) pkix.RelativeDistinguishedNameSET { return a }
	switch k {
	case 0: // C,O,CN against CN,O,C
		return pkix.RDNSequence{one(atv(oidC, "DE")), one(atv(oidO, "Org")), one(atv(oidCN, "CA 1"))},
			pkix.RDNSequence{one(atv(oidCN, "CA 1")), one(atv(oidO, "Org")), one(atv(oidC, "DE"))}
	case 1: // {O+OU} multi-valued against O, OU
		return pkix.RDNSequence{one(atv(oidC, "DE")), one(atv(oidO, "Org"), atv(oidOU, "Unit")), one(atv(oidCN, "CA 1"))},
			pkix.RDNSequence{one(atv(oidC, "DE")), one(atv(oidO, "Org")), one(atv(oidOU, "Unit")), one(atv(oidCN, "CA 1"))}
	case 2: // a repeated common name against a single one
		return pkix.RDNSequence{one(atv(oidC, "DE")), one(atv(oidCN, "Old CA")), one(atv(oidCN, "CA 1"))},
			pkix.RDNSequence{one(atv(oidC, "DE")), one(atv(oidCN, "CA 1"))}
	}
	// two organisational units in either order
	return pkix.RDNSequence{one(atv(oidO, "Org")), one(atv(oidOU, "A")), one(atv(oidOU, "B")), one(atv(oidCN, "CA 1"))},
		pkix.RDNSequence{one(atv(oidO, "Org")), one(atv(oidOU, "B")), one(atv(oidOU, "A")), one(atv(oidCN, "CA 1"))}
}

// VerifC18_IssuerStructure: two issuers whose names differ only in structure are different issuers. With the
// REAL rendering of names (no name model): an entry inserted under one of them, with an arbitrary serial, is
// found under that issuer and NOT under the other, on both backends; and an entry of the same serial inserted
// under the other afterwards does not replace the first one's date.
func VerifC18_IssuerStructure() {
	installStoreModels()
	verifrt.ClearOverride("(crypto/x509/pkix.RDNSequence).String")
	a, b := issuerShapes(verifrt.Choose(4))
	if verifrt.Choose(2) == 1 {
		a, b = b, a
	}
	var st CRLStore
	var err error
	if verifrt.Choose(2) == 1 {
		st, err = LevelDbStoreFactory{Serializer: modelSerializer{}, BasePath: "/work"}.CreateStore("id", false)
	} else {
		st, err = MapStoreFactory{Serializer: modelSerializer{}}.CreateStore("id", false)
	}
	verifrt.Assert(err == nil, "store created")
	verifrt.Assert(st.StartUpdateCrl(&crlreader.CRLMetaInfo{}) == nil, "start")
	s := serial("serial")
	dateA := verifrt.TimeAt(verifrt.NondetInt64("dateA"))
	verifrt.Assert(st.InsertRevokedCert(&crlreader.CRLEntry{Issuer: &a, RevokedCertificate: &pkix.RevokedCertificate{SerialNumber: s, RevocationTime: dateA}}) == nil, "insert under the first issuer")
	stA, errA := st.GetCertRevocationStatus(&a, s)
	verifrt.Assert(errA == nil && stA != nil && stA.Revoked, "the entry is found under the issuer it was inserted for")
	stB, errB := st.GetCertRevocationStatus(&b, s)
	verifrt.Reach("other-issuer-probed")
	verifrt.Assert(errB == nil && stB != nil && !stB.Revoked, "a structurally different issuer name is a different issuer: the pair was never inserted")
	dateB := verifrt.TimeAt(verifrt.NondetInt64("dateB"))
	verifrt.Assume(!dateB.Equal(dateA))
	verifrt.Assert(st.InsertRevokedCert(&crlreader.CRLEntry{Issuer: &b, RevokedCertificate: &pkix.RevokedCertificate{SerialNumber: s, RevocationTime: dateB}}) == nil, "insert under the second issuer")
	stA, errA = st.GetCertRevocationStatus(&a, s)
	verifrt.Assert(errA == nil && stA != nil && stA.Revoked && stA.CRLRevokedCertEntry != nil && stA.CRLRevokedCertEntry.RevocationTime.Equal(dateA), "the first issuer's entry is unchanged by the second issuer's")
}
