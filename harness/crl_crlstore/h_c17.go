package crlstore

import (
	"crypto/x509/pkix"

	"github.com/gr33nbl00d/caddy-revocation-validator/crl/crlreader"
	"github.com/gr33nbl00d/caddy-revocation-validator/zz_verif/verifrt"
)

// VerifC17_DiskStore: feeding K entries (arbitrary serials) into the disk store the way the streaming
// reader does leaves the process memory - everything reachable that is not the (modelled) disk - at the
// same size after entry 2, 3, ..., K: the disk backend keeps nothing per entry in memory. (The memory
// backend keeps every entry by design; the property's bound is about disk storage.)
func VerifC17_DiskStore() {
	K := verifrt.Param("K", 4)
	installStoreModels()
	f := LevelDbStoreFactory{Serializer: modelSerializer{}, BasePath: "/work"}
	st, err := f.CreateStore("id", false)
	verifrt.Assume(err == nil)
	proc := CRLPersisterProcessor{CRLStore: st}
	issuer := rdn("CA1")
	err = proc.StartUpdateCrl(&crlreader.CRLMetaInfo{Issuer: *issuer})
	verifrt.Assume(err == nil)
	var live [8]int
	for i := 0; i < K && i < len(live); i++ {
		e := &crlreader.CRLEntry{Issuer: issuer, RevokedCertificate: &pkix.RevokedCertificate{SerialNumber: serial("serial")}}
		err = proc.InsertRevokedCertificate(e)
		verifrt.Assert(err == nil, "insert succeeds on a healthy disk")
		live[i] = verifrt.LiveBytesExcluding(verifrt.Disk, objs)
	}
	for i := 2; i < K && i < len(live); i++ {
		verifrt.Assert(live[i] == live[i-1], "process memory does not grow from one stored entry to the next")
	}
	verifrt.Reach("disk-store-memory-checked")
}
