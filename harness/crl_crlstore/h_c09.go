package crlstore

import (
	"crypto/x509/pkix"

	"github.com/gr33nbl00d/caddy-revocation-validator/crl/crlreader"
	"github.com/gr33nbl00d/caddy-revocation-validator/zz_verif/verifrt"
)

// VerifC09_Store: a storage failure at lookup time must surface as an error, for listed and
// unlisted certificates, on both backends. Never (Revoked=false, nil).
func VerifC09_Store() {
	installStoreModels()
	disk := verifrt.Choose(2) == 1
	var st CRLStore
	var err error
	if disk {
		st, err = LevelDbStoreFactory{Serializer: modelSerializer{}, BasePath: "/work"}.CreateStore("id", false)
	} else {
		st, err = MapStoreFactory{Serializer: modelSerializer{}}.CreateStore("id", false)
	}
	verifrt.Assert(err == nil, "store created")
	verifrt.Assert(st.StartUpdateCrl(&crlreader.CRLMetaInfo{}) == nil, "start")
	listedSerial := serial("listed")
	rc := &pkix.RevokedCertificate{SerialNumber: listedSerial}
	verifrt.Assert(st.InsertRevokedCert(&crlreader.CRLEntry{Issuer: rdn("CN=I1"), RevokedCertificate: rc}) == nil, "insert")
	probe := serial("probe")
	isListed := probe.Cmp(listedSerial) == 0
	fault := verifrt.Choose(5)
	switch fault {
	case 0: // no fault: baseline
	case 1: // read error from the database
		if !disk {
			return
		}
		verifrt.GetFaults = true
	case 2: // store closed (e.g. by a concurrent shutdown while a handshake still holds the entry)
		st.Close()
	case 3: // record value corrupted / truncated / replaced by a well-formed record of ANOTHER serial (bit flip inside the serial)
		foreign := &pkix.RevokedCertificate{SerialNumber: serial("foreign")}
		verifrt.Assume(foreign.SerialNumber.Cmp(listedSerial) != 0)
		garbage := [][]byte{{}, {0x30}, {0xEE}, {0xEE, 0xFF}, reg(*foreign)}[verifrt.Choose(5)] // truncated to 0 / 1 byte, wrong index, foreign record
		if disk {
			for i := range verifrt.Disk["/work/id"].KV {
				verifrt.Disk["/work/id"].KV[i].V = garbage
			}
		} else {
			ms := st.(*MapStore)
			for k := range ms.Map {
				ms.Map[k] = garbage
			}
		}
	case 4: // the table block of the record was damaged on disk after it had been written
		if !disk {
			return
		}
		verifrt.DamagedBlocks = true
	}
	status, lerr := st.GetCertRevocationStatus(rdn("CN=I1"), probe)
	switch fault {
	case 0:
		verifrt.Assert(lerr == nil && status != nil && status.Revoked == isListed, "baseline lookup is exact")
	case 1:
		verifrt.Reach("read-error")
		// the fault is injected nondeterministically: whenever the read failed, the lookup must fail
		if lerr == nil {
			verifrt.Assert(status.Revoked == isListed, "without a fault the answer is exact")
		}
	case 2:
		verifrt.Reach("closed-db")
		if disk {
			verifrt.Assert(lerr != nil, "closed database: lookup reports an error, never 'not revoked'")
		} else {
			// the memory backend may keep answering after Close - but only correctly
			verifrt.Assert(lerr != nil || (status != nil && status.Revoked == isListed), "closed memory store: an error or the exact answer, never 'not revoked' for a listed certificate")
		}
	case 4:
		verifrt.Reach("damaged-block")
		verifrt.Assert(lerr != nil, "damaged table block: lookup reports an error, never 'not revoked' (the database must keep verifying block checksums)")
	case 3:
		verifrt.Reach("corrupt-record")
		if isListed {
			verifrt.Assert(lerr != nil || (status != nil && status.Revoked), "damaged record under the key of a listed certificate: an error (or still 'revoked'), never 'not revoked'")
		} else {
			verifrt.Assert(lerr == nil && !status.Revoked, "unlisted certificate unaffected by other corrupted records")
		}
	}
}

// VerifC09_ReadError: every injected read error is reported (deterministic twin of case 1 above).
func VerifC09_ReadError() {
	installStoreModels()
	st, err := LevelDbStoreFactory{Serializer: modelSerializer{}, BasePath: "/work"}.CreateStore("id", false)
	verifrt.Assert(err == nil, "store created")
	listedSerial := serial("listed")
	rc := &pkix.RevokedCertificate{SerialNumber: listedSerial}
	verifrt.Assert(st.InsertRevokedCert(&crlreader.CRLEntry{Issuer: rdn("CN=I1"), RevokedCertificate: rc}) == nil, "insert")
	// every Get fails with an I/O error from here on
	verifrt.Override("(*github.com/syndtr/goleveldb/leveldb.DB).Get", failingGet)
	status, lerr := st.GetCertRevocationStatus(rdn("CN=I1"), serial("probe"))
	verifrt.Reach("io-error")
	verifrt.Assert(lerr != nil, "database read error: lookup reports an error, never 'not revoked'")
	_ = status
}
