//verif:native
package crlstore

import (
	"crypto/x509/pkix"
	"encoding/asn1"
	"math/big"
	"strings"
	"time"

	"github.com/gr33nbl00d/caddy-revocation-validator/core"
	"github.com/gr33nbl00d/caddy-revocation-validator/crl/crlreader"
	"github.com/gr33nbl00d/caddy-revocation-validator/zz_verif/verifrt"
)

// Field-level model of encoding/asn1 for the record structs the stores persist. encoding/asn1 works by
// reflection over the struct declaration and its `asn1:"..."` tags; the model does the same with the
// declaration read from the CURRENT source (verifrt.FieldSpec), at the granularity of whole elements:
//
//   Marshal   : fields in declaration order; a field is omitted when it is `omitempty` and an empty slice,
//               or `optional` and equal to its zero value (encoding/asn1/marshal.go makeField); otherwise one
//               element with class/tag = context [N] when `tag:N` (constructed when `explicit`), else the
//               universal tag of the Go type (all string types / both time types count as one family, as the
//               decoder accepts any of them).
//   Unmarshal : fields in declaration order against the element sequence; at the end of the sequence, or when
//               the next element's class/tag is not the field's, an `optional` field stays zero and consumes
//               nothing, any other field is an error; trailing elements are ignored (asn1.go parseField /
//               parseSequence).
//
// An element carries the index of the field it was produced from; decoding yields, per field, the source
// field whose value it receives (or none). The real ASN1Serializer code runs on top of these two functions.

const (
	famString = 1
	famSeq    = 2
	famTime   = 3
	famInt    = 4
)

type schemaField struct {
	name                          string
	idx, fam, ctx                 int
	optional, explicit, omitempty bool
}

type schemaTok struct {
	ctx      bool
	tag      int
	fam      int
	explicit bool
	src      int // position (in the harness' field list) of the field this element was made from
}

type schemaRec struct {
	toks []schemaTok
	val  interface{}
}

var schemaRecs []schemaRec

func atoiConst(s string) int {
	n := 0
	for i := 0; i < len(s); i++ {
		if s[i] < '0' || s[i] > '9' {
			verifrt.OutOfDate("unreadable number in a struct tag: " + s)
			return 0
		}
		n = n*10 + int(s[i]-'0')
	}
	return n
}

// schemaOf reads the declaration of v's struct type: the harness names the fields it knows (with the ASN.1
// family of their Go type); a field added, removed or renamed makes the harness out of date.
func schemaOf(v interface{}, names []string, fams []int) []schemaField {
	if verifrt.FieldCount(v) != len(names) {
		verifrt.OutOfDate("the record struct has another number of fields than the harness knows")
	}
	out := make([]schemaField, len(names))
	for k, n := range names {
		spec := verifrt.FieldSpec(v, n)
		bar := strings.Index(spec, "|")
		f := schemaField{name: n, idx: atoiConst(spec[:bar]), fam: fams[k], ctx: -1}
		for _, part := range strings.Split(spec[bar+1:], ",") {
			switch {
			case part == "optional":
				f.optional = true
			case part == "explicit":
				f.explicit = true
			case part == "omitempty":
				f.omitempty = true
			case strings.HasPrefix(part, "tag:"):
				f.ctx = atoiConst(part[4:])
			}
		}
		out[f.idx] = f
		// position k of the harness' list <-> declaration index: remembered through name
	}
	return out
}

// schemaMarshal: zero[k] / empty[k] describe the value of the field the harness lists at position k
func schemaMarshal(fields []schemaField, names []string, zero, empty []bool) []schemaTok {
	var toks []schemaTok
	for _, f := range fields { // declaration order
		k := posOf(names, f.name)
		if f.omitempty && empty[k] {
			continue
		}
		if f.optional && zero[k] {
			continue
		}
		t := schemaTok{fam: f.fam, src: k, tag: f.fam}
		if f.ctx >= 0 {
			t.ctx, t.tag, t.explicit = true, f.ctx, f.explicit
		}
		toks = append(toks, t)
	}
	return toks
}

func posOf(names []string, n string) int {
	for k, x := range names {
		if x == n {
			return k
		}
	}
	return -1
}

// schemaUnmarshal: for the field listed at position k, from[k] = position of the field whose value it gets, -1 = stays zero
func schemaUnmarshal(fields []schemaField, names []string, toks []schemaTok) (from []int, ok bool) {
	from = make([]int, len(names))
	for k := range from {
		from[k] = -1
	}
	at := 0
	for _, f := range fields {
		k := posOf(names, f.name)
		if at == len(toks) {
			if !f.optional {
				return nil, false // sequence truncated
			}
			continue
		}
		t := toks[at]
		match := false
		if f.ctx >= 0 {
			match = t.ctx && t.tag == f.ctx && t.explicit == f.explicit
		} else {
			match = !t.ctx && t.fam == f.fam
		}
		if !match {
			if !f.optional {
				return nil, false // tags don't match
			}
			continue
		}
		if t.fam != f.fam {
			return nil, false // an implicitly tagged element of another type: its content does not decode as this field's type
		}
		from[k] = t.src
		at++
	}
	return from, true
}

var locNames = []string{"CRLDistributionPoints", "CRLUrl", "CRLFile"}
var locFams = []int{famSeq, famString, famString}
var metaNames = []string{"Issuer", "ThisUpdate", "NextUpdate"}
var metaFams = []int{famSeq, famTime, famTime}
var extNames = []string{"CRLNumber"}
var extFams = []int{famInt}
var revNames = []string{"SerialNumber", "RevocationTime", "Extensions"}
var revFams = []int{famInt, famTime, famSeq}

func installSchemaASN1() {
	schemaRecs = nil
	verifrt.Override("encoding/asn1.Marshal", func(v interface{}) ([]byte, error) {
		var toks []schemaTok
		switch x := v.(type) {
		case core.CRLLocations:
			toks = schemaMarshal(schemaOf(x, locNames, locFams), locNames,
				[]bool{x.CRLDistributionPoints == nil, x.CRLUrl == "", x.CRLFile == ""},
				[]bool{len(x.CRLDistributionPoints) == 0, false, false})
		case crlreader.CRLMetaInfo:
			toks = schemaMarshal(schemaOf(x, metaNames, metaFams), metaNames,
				[]bool{x.Issuer == nil, x.ThisUpdate.IsZero(), x.NextUpdate.IsZero()},
				[]bool{len(x.Issuer) == 0, false, false})
		case crlreader.ExtendedCRLMetaInfo:
			toks = schemaMarshal(schemaOf(x, extNames, extFams), extNames, []bool{x.CRLNumber == nil}, []bool{false})
		case pkix.RevokedCertificate:
			toks = schemaMarshal(schemaOf(x, revNames, revFams), revNames,
				[]bool{x.SerialNumber == nil, x.RevocationTime.IsZero(), x.Extensions == nil},
				[]bool{false, false, len(x.Extensions) == 0})
		default:
			verifrt.OutOfDate("asn1.Marshal of a record type the schema model does not know")
			return nil, verifrt.NewError("unknown record")
		}
		schemaRecs = append(schemaRecs, schemaRec{toks: toks, val: v})
		return []byte{0xA5, byte(len(schemaRecs) - 1)}, nil
	})
	verifrt.Override("encoding/asn1.Unmarshal", func(b []byte, v interface{}) ([]byte, error) {
		if len(b) != 2 || b[0] != 0xA5 || int(b[1]) >= len(schemaRecs) {
			return nil, verifrt.NewError("not a record")
		}
		rec := schemaRecs[b[1]]
		switch dst := v.(type) {
		case *core.CRLLocations:
			src, same := rec.val.(core.CRLLocations)
			if !same {
				return nil, verifrt.NewError("another record type")
			}
			from, ok := schemaUnmarshal(schemaOf(dst, locNames, locFams), locNames, rec.toks)
			if !ok {
				return nil, verifrt.NewError("asn1: structure error")
			}
			strs := []string{"", src.CRLUrl, src.CRLFile}
			if from[0] == 0 {
				dst.CRLDistributionPoints = append([]string{}, src.CRLDistributionPoints...)
			} else if from[0] > 0 {
				return nil, verifrt.NewError("asn1: structure error") // a string element where a SEQUENCE OF is expected cannot match (different family)
			}
			if from[1] > 0 {
				dst.CRLUrl = strs[from[1]]
			}
			if from[2] > 0 {
				dst.CRLFile = strs[from[2]]
			}
		case *crlreader.CRLMetaInfo:
			src, same := rec.val.(crlreader.CRLMetaInfo)
			if !same {
				return nil, verifrt.NewError("another record type")
			}
			from, ok := schemaUnmarshal(schemaOf(dst, metaNames, metaFams), metaNames, rec.toks)
			if !ok {
				return nil, verifrt.NewError("asn1: structure error")
			}
			times := []time.Time{{}, src.ThisUpdate, src.NextUpdate}
			if from[0] == 0 {
				dst.Issuer = src.Issuer
			}
			if from[1] > 0 {
				dst.ThisUpdate = times[from[1]]
			}
			if from[2] > 0 {
				dst.NextUpdate = times[from[2]]
			}
		case *crlreader.ExtendedCRLMetaInfo:
			src, same := rec.val.(crlreader.ExtendedCRLMetaInfo)
			if !same {
				return nil, verifrt.NewError("another record type")
			}
			from, ok := schemaUnmarshal(schemaOf(dst, extNames, extFams), extNames, rec.toks)
			if !ok {
				return nil, verifrt.NewError("asn1: structure error")
			}
			if from[0] == 0 && src.CRLNumber != nil {
				dst.CRLNumber = new(big.Int).Set(src.CRLNumber)
			}
		case *pkix.RevokedCertificate:
			src, same := rec.val.(pkix.RevokedCertificate)
			if !same {
				return nil, verifrt.NewError("another record type")
			}
			from, ok := schemaUnmarshal(schemaOf(dst, revNames, revFams), revNames, rec.toks)
			if !ok {
				return nil, verifrt.NewError("asn1: structure error")
			}
			if from[0] == 0 && src.SerialNumber != nil {
				dst.SerialNumber = new(big.Int).Set(src.SerialNumber)
			}
			if from[1] == 1 {
				dst.RevocationTime = src.RevocationTime
			}
			if from[2] == 2 {
				dst.Extensions = append([]pkix.Extension{}, src.Extensions...)
			}
		default:
			verifrt.OutOfDate("asn1.Unmarshal into a record type the schema model does not know")
			return nil, verifrt.NewError("unknown record")
		}
		return nil, nil
	})
}

// VerifC18_Schema: the record structs as DECLARED NOW (field order and asn1 tags read from the source),
// through the real ASN1Serializer: for every value shape - each optional part absent or present, strings
// empty or not, the distribution-point list nil / empty / filled, nextUpdate and CRL number absent or
// present - Deserialize(Serialize(x)) succeeds and every field reads back equal to what was written.
func VerifC18_Schema() {
	installSchemaASN1()
	ser := ASN1Serializer{}
	switch verifrt.Choose(4) {
	case 0:
		in := core.CRLLocations{CRLUrl: verifrt.NondetString("url"), CRLFile: verifrt.NondetString("file")}
		switch verifrt.Choose(3) {
		case 1:
			in.CRLDistributionPoints = []string{}
		case 2:
			in.CRLDistributionPoints = []string{verifrt.NondetString("dp0"), verifrt.NondetString("dp1")}
		}
		b, err := ser.SerializeCRLLocations(&in)
		verifrt.Assert(err == nil, "locations serialize")
		out, err := ser.DeserializeCRLLocations(b)
		verifrt.Reach("locations")
		verifrt.Assert(err == nil && out != nil, "locations written by the serializer read back")
		if err != nil || out == nil {
			return
		}
		verifrt.Assert(out.CRLUrl == in.CRLUrl, "CRLUrl reads back equal (also when it or its neighbour is empty)")
		verifrt.Assert(out.CRLFile == in.CRLFile, "CRLFile reads back equal (also when it or its neighbour is empty)")
		verifrt.Assert(len(out.CRLDistributionPoints) == len(in.CRLDistributionPoints), "distribution points read back: same number")
		if len(out.CRLDistributionPoints) == len(in.CRLDistributionPoints) {
			for i := range in.CRLDistributionPoints {
				verifrt.Assert(out.CRLDistributionPoints[i] == in.CRLDistributionPoints[i], "distribution points read back equal, in order")
			}
		}
	case 1:
		in := crlreader.CRLMetaInfo{Issuer: pkix.RDNSequence{pkix.RelativeDistinguishedNameSET{pkix.AttributeTypeAndValue{Type: asn1.ObjectIdentifier{2, 5, 4, 3}, Value: "I1"}}}, }
		if verifrt.Choose(2) == 1 {
			in.ThisUpdate = verifrt.TimeAt(verifrt.NondetInt64("this"))
		}
		if verifrt.Choose(2) == 1 {
			in.NextUpdate = verifrt.TimeAt(verifrt.NondetInt64("next"))
		}
		b, err := ser.SerializeMetaInfo(&in)
		verifrt.Assert(err == nil, "meta info serializes")
		out, err := ser.DeserializeMetaInfo(b)
		verifrt.Reach("metainfo")
		verifrt.Assert(err == nil && out != nil, "meta info written by the serializer reads back")
		if err != nil || out == nil {
			return
		}
		verifrt.Assert(out.ThisUpdate.Equal(in.ThisUpdate), "thisUpdate reads back equal")
		verifrt.Assert(out.NextUpdate.Equal(in.NextUpdate), "nextUpdate reads back equal (absent stays absent)")
		verifrt.Assert(out.NextUpdate.IsZero() == in.NextUpdate.IsZero(), "an absent nextUpdate stays absent, a present one present")
		verifrt.Assert(len(out.Issuer) == len(in.Issuer), "issuer reads back")
	case 2:
		in := crlreader.ExtendedCRLMetaInfo{}
		if verifrt.Choose(2) == 1 {
			in.CRLNumber = big.NewInt(verifrt.NondetInt64("crlnumber"))
		}
		b, err := ser.SerializeMetaInfoExt(&in)
		verifrt.Assert(err == nil, "extended meta info serializes")
		out, err := ser.DeserializeMetaInfoExt(b)
		verifrt.Reach("metainfoext")
		verifrt.Assert(err == nil && out != nil, "extended meta info written by the serializer reads back")
		if err != nil || out == nil {
			return
		}
		verifrt.Assert((out.CRLNumber == nil) == (in.CRLNumber == nil), "an absent CRL number stays absent, a present one present")
		if out.CRLNumber != nil && in.CRLNumber != nil {
			verifrt.Assert(out.CRLNumber.Cmp(in.CRLNumber) == 0, "CRL number reads back equal")
		}
	case 3:
		// an entry (standard-library struct, serialized by the repository's code): wide serial, date, with and without extensions
		in := pkix.RevokedCertificate{SerialNumber: big.NewInt(verifrt.NondetInt64("serial")), RevocationTime: verifrt.TimeAt(verifrt.NondetInt64("revoked"))}
		if verifrt.Choose(2) == 1 {
			in.Extensions = []pkix.Extension{{Id: asn1.ObjectIdentifier{2, 5, 29, 21}, Critical: verifrt.NondetBool("crit"), Value: []byte{0x0a, 0x01, verifrt.NondetU8("reason")}}}
		}
		b, err := ser.SerializeRevokedCert(&in)
		verifrt.Assert(err == nil, "an entry serializes")
		out, err := ser.DeserializeRevokedCert(b)
		verifrt.Reach("entry")
		verifrt.Assert(err == nil && out != nil, "an entry written by the serializer reads back")
		if err != nil || out == nil {
			return
		}
		verifrt.Assert(out.SerialNumber != nil && out.SerialNumber.Cmp(in.SerialNumber) == 0, "the entry's serial reads back equal")
		verifrt.Assert(out.RevocationTime.Equal(in.RevocationTime), "the entry's revocation date reads back equal")
		verifrt.Assert(len(out.Extensions) == len(in.Extensions), "the entry's extensions read back: same number")
		if len(out.Extensions) == 1 && len(in.Extensions) == 1 {
			verifrt.Assert(out.Extensions[0].Critical == in.Extensions[0].Critical && out.Extensions[0].Id.Equal(in.Extensions[0].Id) && verifrt.BytesEqual(out.Extensions[0].Value, in.Extensions[0].Value), "the entry's extension reads back unchanged")
		}
	}
}
