package crlstore

import (
	"crypto/x509/pkix"
	"math/big"

	"github.com/gr33nbl00d/caddy-revocation-validator/core"
	"github.com/gr33nbl00d/caddy-revocation-validator/crl/crlreader"
	"github.com/gr33nbl00d/caddy-revocation-validator/zz_verif/verifrt"
)

// reference model of the abstract map (the oracle of C18)
type refStore struct {
	meta     *crlreader.CRLMetaInfo
	ext      *crlreader.ExtendedCRLMetaInfo
	signer   *core.CertificateChainEntry
	loc      *core.CRLLocations
	inserted []refEntry
}
type refEntry struct {
	issuer string
	serial *big.Int
	rc     *pkix.RevokedCertificate
}

var issuers = []string{"CN=I1", "CN=I12"} // one name extends the other by a digit: keys must still be kept apart

type bench struct {
	mapS, dskS CRLStore
	ref        *refStore
	mapF       MapStoreFactory
	dskF       LevelDbStoreFactory
	serials    []*big.Int
}

func newBench() *bench {
	installStoreModels()
	b := &bench{ref: &refStore{}}
	b.mapF = MapStoreFactory{Serializer: modelSerializer{}}
	b.dskF = LevelDbStoreFactory{Serializer: modelSerializer{}, BasePath: "/work"}
	var err error
	b.mapS, err = b.mapF.CreateStore("id", false)
	verifrt.Assert(err == nil, "map store created")
	b.dskS, err = b.dskF.CreateStore("id", false)
	verifrt.Assert(err == nil, "disk store created")
	for i := 0; i < 3; i++ {
		b.serials = append(b.serials, serial("serial"))
	}
	return b
}

// apply one operation to a (map store, disk store, reference) triple
func (b *bench) op(kind int, mapS, dskS CRLStore, ref *refStore) {
	switch kind {
	case 0:
		m := &crlreader.CRLMetaInfo{}
		verifrt.Assert(mapS.StartUpdateCrl(m) == nil && dskS.StartUpdateCrl(m) == nil, "start ok")
		ref.meta = m
	case 1, 2, 3:
		k := kind - 1
		// an entry carries a revocation date and entry extensions (reason code ...): arbitrary content
		rc := &pkix.RevokedCertificate{SerialNumber: b.serials[k], RevocationTime: verifrt.TimeAt(verifrt.NondetInt64("revocationDate")),
			Extensions: []pkix.Extension{{Id: []int{2, 5, 29, 21}, Critical: verifrt.NondetBool("critical"), Value: verifrt.NondetBytes("extValue", 3)}}}
		iss := issuers[k%2]
		e := &crlreader.CRLEntry{Issuer: rdn(iss), RevokedCertificate: rc}
		verifrt.Assert(mapS.InsertRevokedCert(e) == nil && dskS.InsertRevokedCert(e) == nil, "insert ok")
		ref.inserted = append(ref.inserted, refEntry{iss, b.serials[k], rc})
	case 4:
		x := &crlreader.ExtendedCRLMetaInfo{CRLNumber: big.NewInt(7)}
		verifrt.Assert(mapS.UpdateExtendedMetaInfo(x) == nil && dskS.UpdateExtendedMetaInfo(x) == nil, "ext ok")
		ref.ext = x
	case 5:
		s := signerEntry(1)
		verifrt.Assert(mapS.UpdateSignatureCertificate(s) == nil && dskS.UpdateSignatureCertificate(s) == nil, "signer ok")
		ref.signer = s
	case 6:
		l := &core.CRLLocations{CRLUrl: "http://crl"}
		verifrt.Assert(mapS.UpdateCRLLocations(l) == nil && dskS.UpdateCRLLocations(l) == nil, "locations ok")
		ref.loc = l
	}
}

func (b *bench) observe(mapS, dskS CRLStore, ref *refStore, tag string) {
	// metadata getters
	mm, e1 := mapS.GetCRLMetaInfo()
	dm, e2 := dskS.GetCRLMetaInfo()
	verifrt.Assert((e1 == nil) == (ref.meta != nil) && (e2 == nil) == (ref.meta != nil), "meta present iff written")
	if ref.meta != nil && e1 == nil && e2 == nil {
		verifrt.Assert(mm != nil && dm != nil, "meta returned")
		verifrt.Assert(!mapS.IsEmpty() && !dskS.IsEmpty(), "a started store is not empty")
	}
	mx, e1 := mapS.GetCRLExtMetaInfo()
	dx, e2 := dskS.GetCRLExtMetaInfo()
	verifrt.Assert((e1 == nil) == (ref.ext != nil) && (e2 == nil) == (ref.ext != nil), "ext-meta present iff written")
	if ref.ext != nil && e1 == nil && e2 == nil {
		verifrt.Assert(mx.CRLNumber == ref.ext.CRLNumber && dx.CRLNumber == ref.ext.CRLNumber, "ext-meta unchanged")
	}
	ms, e1 := mapS.GetCRLSignatureCert()
	ds, e2 := dskS.GetCRLSignatureCert()
	verifrt.Assert((e1 == nil) == (ref.signer != nil) && (e2 == nil) == (ref.signer != nil), "signer present iff written")
	if ref.signer != nil && e1 == nil && e2 == nil {
		verifrt.Assert(ms.Certificate == ref.signer.Certificate && ds.Certificate == ref.signer.Certificate, "signer unchanged")
	}
	ml, e1 := mapS.GetCRLLocations()
	dl, e2 := dskS.GetCRLLocations()
	verifrt.Assert((e1 == nil) == (ref.loc != nil) && (e2 == nil) == (ref.loc != nil), "locations present iff written")
	if ref.loc != nil && e1 == nil && e2 == nil {
		verifrt.Assert(ml.CRLUrl == ref.loc.CRLUrl && dl.CRLUrl == ref.loc.CRLUrl, "locations unchanged")
	}
	// lookup with an arbitrary probe
	pi := verifrt.Choose(2)
	ps := serial("probe")
	mst, e1 := mapS.GetCertRevocationStatus(rdn(issuers[pi]), ps)
	dst, e2 := dskS.GetCertRevocationStatus(rdn(issuers[pi]), ps)
	verifrt.Assert(e1 == nil && e2 == nil, "lookup works")
	if e1 != nil || e2 != nil {
		return
	}
	listed := false
	var last *pkix.RevokedCertificate
	for _, e := range ref.inserted {
		if e.issuer == issuers[pi] && e.serial.Cmp(ps) == 0 {
			listed = true
			last = e.rc
		}
	}
	verifrt.Assert(mst.Revoked == listed, "memory: revoked exactly for inserted (issuer, serial) pairs")
	verifrt.Assert(dst.Revoked == listed, "disk: revoked exactly for inserted (issuer, serial) pairs")
	if listed && mst.Revoked && dst.Revoked {
		verifrt.Reach("listed-" + tag)
		verifrt.Assert(mst.CRLRevokedCertEntry != nil && mst.CRLRevokedCertEntry.SerialNumber == last.SerialNumber, "memory returns the stored entry")
		verifrt.Assert(dst.CRLRevokedCertEntry != nil && dst.CRLRevokedCertEntry.SerialNumber == last.SerialNumber, "disk returns the stored entry")
		for _, got := range []*pkix.RevokedCertificate{mst.CRLRevokedCertEntry, dst.CRLRevokedCertEntry} {
			if got == nil {
				continue
			}
			verifrt.Assert(verifrt.TimeNs(got.RevocationTime) == verifrt.TimeNs(last.RevocationTime), "the stored entry comes back with its revocation date")
			verifrt.Assert(len(got.Extensions) == len(last.Extensions), "the stored entry comes back with its entry extensions")
			if len(got.Extensions) == 1 && len(last.Extensions) == 1 {
				verifrt.Assert(got.Extensions[0].Critical == last.Extensions[0].Critical && verifrt.BytesEqual(got.Extensions[0].Value, last.Extensions[0].Value) && got.Extensions[0].Id.Equal(last.Extensions[0].Id), "entry extension unchanged")
			}
		}
	}
}

// VerifC18_Sequences: every operation sequence up to length L on both backends and the reference.
func VerifC18_Sequences() {
	b := newBench()
	L := verifrt.Param("L", 3)
	n := 1 + verifrt.Choose(L)
	for step := 0; step < n; step++ {
		kind := verifrt.Choose(10)
		switch {
		case kind <= 6:
			b.op(kind, b.mapS, b.dskS, b.ref)
		case kind == 7: // replace-with(other store built by two operations)
			otherID := []string{"id", "other"}[verifrt.Choose(2)] // the replacing store may have been created under another name
			om, err1 := b.mapF.CreateStore(otherID, true)
			od, err2 := b.dskF.CreateStore(otherID, true)
			verifrt.Assert(err1 == nil && err2 == nil, "staging stores created")
			oref := &refStore{}
			b.op(0, om, od, oref)
			b.op(1+verifrt.Choose(3), om, od, oref)
			verifrt.Assert(b.mapS.Update(om) == nil, "memory replace ok")
			verifrt.Assert(b.dskS.Update(od) == nil, "disk replace ok")
			b.ref = oref
			verifrt.Assert(verifrt.TempResidue("/work") == 0, "no temporary directory left after a replacement")
		case kind == 9: // a reader asks for everything in between (getters must not remember what they returned)
			for _, st := range []CRLStore{b.mapS, b.dskS} {
				_, _ = st.GetCRLSignatureCert()
				_, _ = st.GetCRLMetaInfo()
				_, _ = st.GetCRLExtMetaInfo()
				_, _ = st.GetCRLLocations()
			}
		case kind == 8: // close + reopen (disk); memory is unaffected
			b.dskS.Close()
			var err error
			b.dskS, err = b.dskF.CreateStore("id", false)
			verifrt.Assert(err == nil, "reopen ok")
		}
	}
	b.observe(b.mapS, b.dskS, b.ref, "end")
}
