package crlstore

import (
	"github.com/gr33nbl00d/caddy-revocation-validator/zz_verif/verifrt"
	"github.com/syndtr/goleveldb/leveldb"
	"github.com/syndtr/goleveldb/leveldb/opt"
)

func failingGet(db *leveldb.DB, key []byte, ro *opt.ReadOptions) ([]byte, error) {
	return nil, verifrt.NewError("leveldb: I/O error")
}
