#!/bin/bash
# usage: ./try_mutant.sh <patch.diff> <prop> [<prop>...]
# applies the patch to a scratch worktree of /repo (never to /repo itself), runs the checks against it with
# their output in /tmp/mut_out (the evidence of the unchanged tree is not touched), removes the worktree.
P=$(realpath "$1"); shift
cd "$(dirname "$0")"
W=/tmp/mut_wt_$$
git -C /repo worktree add -q --detach $W HEAD || exit 3
trap 'git -C /repo worktree remove --force $W >/dev/null 2>&1; rm -rf $W' EXIT
git -C $W apply "$P" || { echo "patch does not apply"; exit 3; }
export VERIF_REPO=$W VERIF_OUT=/tmp/mut_out; mkdir -p $VERIF_OUT
for p in "$@"; do
  s=$(date +%s); ./check $p ${TIER:-quick} ${EXTRA} > /tmp/mut_$p.log 2>&1; rc=$?; e=$(date +%s)
  echo "$p rc=$rc $((e-s))s viol=$(grep -c '^VIOLATION' /tmp/mut_$p.log) incon=$(grep -c '^INCONCLUSIVE' /tmp/mut_$p.log)"
  grep '^VIOLATION\|^INCONCLUSIVE\|^SPURIOUS' /tmp/mut_$p.log | sed 's/replay=[^ ]* *//' | cut -c1-260 | head -4
done
