#!/bin/bash
# usage: ./try_mutant.sh <patch.diff> <prop> [<prop>...]   - applies the patch to /repo, runs the quick checks, reverts
P=$1; shift
git -C /repo apply "$P" || { echo "patch does not apply"; exit 3; }
trap 'git -C /repo checkout -- . ; git -C /repo clean -fdq' EXIT
export VERIF_OUT=/tmp/mut_out; mkdir -p $VERIF_OUT
for p in "$@"; do
  s=$(date +%s); ./check $p ${TIER:-quick} > /tmp/mut_$p.log 2>&1; rc=$?; e=$(date +%s)
  echo "$p rc=$rc $((e-s))s viol=$(grep -c '^VIOLATION' /tmp/mut_$p.log) incon=$(grep -c '^INCONCLUSIVE' /tmp/mut_$p.log)"
  grep '^VIOLATION\|^INCONCLUSIVE\|^SPURIOUS' /tmp/mut_$p.log | sed 's/replay=[^ ]* *//' | cut -c1-260 | head -4
done
