package main

import (
	"encoding/json"
	"fmt"
	"os"
	"os/exec"
	"path/filepath"
	"sort"
	"strings"
	"sync"
	"time"

	"golang.org/x/tools/go/ssa"
)

type fnInfo struct {
	Name   string `json:"name"`
	Instrs int    `json:"ssa_instructions"`
}

func seedFromEnv() int {
	var s int
	fmt.Sscanf(os.Getenv("VERIF_SEED"), "%d", &s)
	return s
}

func writeEvidenceFail(prop, tier string, wall time.Duration, why string) {
	ev := map[string]interface{}{
		"property_id": prop, "tier": tier, "seed": seedFromEnv(), "level": "other",
		"coverage": map[string]interface{}{"explanation": "run was INCONCLUSIVE before any exploration: " + why, "obligations": 0, "discharged": 0},
		"wall_s":   wall.Seconds(), "violations": 0,
	}
	os.MkdirAll(filepath.Join(outDir(), "evidence"), 0755)
	writeJSON(filepath.Join(outDir(), "evidence", prop+".json"), ev)
}

func writeEvidence(prop, tier string, pc *PropCfg, hs []HarnessCfg, results []*Result, prog *ssa.Program, wall time.Duration, nViol int, cross map[string]int, exit int) {
	var fns []fnInfo
	seen := map[string]bool{}
	stubs := map[string]int{}
	overrides := map[string]int{}
	var paths, nontriv, obl, dis, queries int
	var stime time.Duration
	var samples []interface{}
	var hsum []map[string]interface{}
	var known []string
	incon := 0
	for _, r := range results {
		for n, c := range r.Funcs {
			if !seen[n] && (strings.Contains(n, modPath) || strings.HasPrefix(n, "bufio.") || strings.HasPrefix(n, "(*bufio.") || strings.HasPrefix(n, "(*bytes.") || strings.Contains(n, "caddyfile")) && !strings.Contains(n, "zz_verif") && !strings.Contains(n, ".Verif") {
				seen[n] = true
				fns = append(fns, fnInfo{strings.ReplaceAll(n, modPath, "…"), c})
			}
		}
		for k, v := range r.Stubs {
			stubs[k] += v
		}
		for k, v := range r.Overrides {
			overrides[k] += v
		}
		paths += r.Paths
		nontriv += r.Nontrivial
		obl += r.Oblig
		dis += r.Disch
		queries += r.Queries
		stime += r.SolverTime
		incon += len(r.Incon) + len(r.SolverErr)
		for _, l := range sortedKeys(r.Reach) {
			if len(samples) < 40 {
				samples = append(samples, map[string]interface{}{"harness": r.Harness, "reach_witness": l, "solver_model": compactModel(r.Reach[l])})
			}
		}
		for _, id := range sortedKeys(r.KnownHit) {
			known = append(known, id)
			samples = append(samples, map[string]interface{}{"harness": r.Harness, "known_finding": id, "label": r.KnownHit[id].Label, "solver_model": compactModel(r.KnownHit[id].Model)})
		}
		for _, l := range sortedKeys(r.Viol) {
			samples = append(samples, map[string]interface{}{"harness": r.Harness, "violation": l, "solver_model": compactModel(r.Viol[l].Model)})
		}
		hc := findHarness(hs, r.Harness)
		hsum = append(hsum, map[string]interface{}{"harness": r.Harness, "entry": hc.Pkg + "." + hc.Func, "what": hc.What, "bounds": hc.Params,
			"paths": r.Paths, "paths_with_symbolic_obligation": r.Nontrivial, "obligations": r.Oblig, "discharged": r.Disch,
			"solver_queries": r.Queries, "solver_time_s": r.SolverTime.Seconds(), "reach_labels": sortedKeys(r.Reach),
			"inconclusive": sortedKeys(r.Incon), "ssa_steps": r.Steps, "races": r.Races})
	}
	sort.Slice(fns, func(i, j int) bool { return fns[i].Name < fns[j].Name })
	if len(samples) == 0 {
		samples = append(samples, map[string]interface{}{"note": "no reach witnesses recorded"})
	}
	expl := fmt.Sprintf("Bounded symbolic execution of the real SSA of /repo (rebuilt this run) with z3 deciding every obligation: %d feasible paths over %d harnesses, %d obligations of which %d discharged (unsat of path-condition AND NOT obligation), %d solver queries in %.1fs. %s",
		paths, len(results), obl, dis, queries, stime.Seconds(), pc.Bounds)
	cov := map[string]interface{}{
		"explanation":         expl,
		"obligations":         obl,
		"discharged":          dis,
		"checker_cmd":         fmt.Sprintf("./check %s %s", prop, tier),
		"trusted_base":        []string{"z3 4.8.12 (verdicts)", "golang.org/x/tools/go/ssa v0.29.0 (lowering of /repo)", "/verif/engine (own SSA->SMT-LIB executor)", "environment stubs listed under stubs_used/overrides_used"},
		"evaluations":         paths,
		"distinct_nontrivial": nontriv,
		"rule":                "one evaluation = one feasible control-flow path of a harness through the real code (distinct decision prefix); non-trivial = the solver had to discharge at least one obligation with symbolic content on it",
		"samples":             samples,
		"functions_encoded":   fns,
		"stubs_used":          stubs,
		"overrides_used":      overrides,
		"harnesses":           hsum,
		"solver":              map[string]interface{}{"backend": "z3 -in (one process per worker, push/pop)", "queries": queries, "time_s": stime.Seconds()},
		"known_findings_seen": known,
		"inconclusive_items":  incon,
		"outside_claim":       pc.Outside,
		"exit":                exit,
	}
	if len(cross) > 0 {
		cov["cross_solver"] = cross
	}
	ev := map[string]interface{}{
		"property_id": prop, "tier": tier, "seed": seedFromEnv(), "level": "other",
		"coverage": cov, "assumptions": pc.Assumptions, "wall_s": wall.Seconds(), "violations": nViol,
	}
	os.MkdirAll(filepath.Join(outDir(), "evidence"), 0755)
	writeJSON(filepath.Join(outDir(), "evidence", prop+".json"), ev)
}

func compactModel(m map[string]string) map[string]string {
	out := map[string]string{}
	// fold byte arrays name[i] into one hex string
	arrs := map[string]map[int]string{}
	for k, v := range m {
		if i := strings.IndexByte(k, '['); i > 0 && strings.HasSuffix(k, "]") {
			var idx int
			fmt.Sscanf(k[i+1:], "%d", &idx)
			if arrs[k[:i]] == nil {
				arrs[k[:i]] = map[int]string{}
			}
			arrs[k[:i]][idx] = v
			continue
		}
		out[k] = v
	}
	for n, a := range arrs {
		var sb strings.Builder
		for i := 0; i < len(a); i++ {
			sb.WriteString(strings.TrimPrefix(a[i], "#x"))
		}
		out[n] = sb.String()
	}
	return out
}

// crossCheck re-decides dumped verdict queries with z3 5.x and cvc5.
func crossCheck(results []*Result) map[string]int {
	var files []string
	for _, r := range results {
		fs := r.VerdictQ
		if len(fs) > 40 {
			fs = fs[:40]
		}
		files = append(files, fs...)
	}
	out := map[string]int{"queries": len(files)}
	var mu sync.Mutex
	var wg sync.WaitGroup
	sem := make(chan struct{}, 8)
	for _, f := range files {
		for _, be := range [][]string{{"z3-new", "-T:60"}, {"cvc5", "--tlimit=60000"}} {
			wg.Add(1)
			sem <- struct{}{}
			go func(f string, be []string) {
				defer wg.Done()
				defer func() { <-sem }()
				b, _ := exec.Command(be[0], append(be[1:], f)...).CombinedOutput()
				s := strings.TrimSpace(string(b))
				first := strings.Fields(s + " ?")[0]
				mu.Lock()
				defer mu.Unlock()
				switch {
				case strings.Contains(s, "(error") || strings.Contains(s, "rror:"):
					out[be[0]+"_error"]++
				case first == "unsat":
					out[be[0]+"_unsat"]++
				case first == "sat":
					out[be[0]+"_sat"]++
					out["disagree"]++
				default:
					out[be[0]+"_unknown"]++
				}
			}(f, be)
		}
	}
	wg.Wait()
	return out
}

// nativeReplay runs the harness natively (real build of /repo, native verifrt fed with the model).
func nativeReplay(hc HarnessCfg, v *Violation, modelPath string) (bool, string) {
	tmp, err := os.MkdirTemp("", "gosym-replay-")
	if err != nil {
		return false, err.Error()
	}
	defer os.RemoveAll(tmp)
	overlay, _ := buildOverlay([]HarnessCfg{hc}, true)
	pkgName := "revocation"
	if hc.Pkg != "" {
		pkgName = filepath.Base(hc.Pkg)
	}
	test := fmt.Sprintf("package %s\n\nimport \"testing\"\n\nfunc TestVerifReplay(t *testing.T) { %s() }\n", pkgName, hc.Func)
	overlay[filepath.Join(repoDir, hc.Pkg, "zz_verif_replay_test.go")] = []byte(test)
	repl := map[string]string{}
	i := 0
	for virt, content := range overlay {
		real := filepath.Join(tmp, fmt.Sprintf("f%d.go", i))
		i++
		os.WriteFile(real, content, 0644)
		repl[virt] = real
	}
	ovf := filepath.Join(tmp, "overlay.json")
	b, _ := json.Marshal(map[string]interface{}{"Replace": repl})
	os.WriteFile(ovf, b, 0644)
	cmd := exec.Command("go", "test", "-vet=off", "-count=1", "-run", "^TestVerifReplay$", "-overlay", ovf, "./"+hc.Pkg)
	cmd.Dir = repoDir
	cmd.Env = append(os.Environ(), "GOFLAGS=-mod=mod", "GOPROXY=off", "GOSUMDB=off", "GOTOOLCHAIN=local", "VERIF_MODEL="+modelPath)
	done := make(chan struct{})
	var out []byte
	go func() { out, _ = cmd.CombinedOutput(); close(done) }()
	select {
	case <-done:
	case <-time.After(180 * time.Second):
		cmd.Process.Kill()
		return false, "native replay timed out"
	}
	s := string(out)
	switch {
	case strings.HasPrefix(v.Label, "assert:"):
		return strings.Contains(s, "ASSERT-FAILED: "+strings.TrimPrefix(v.Label, "assert:")), s
	case strings.HasPrefix(v.Label, "alloc-not-backed"):
		return strings.Contains(s, "ALLOC-EXCEEDED") || strings.Contains(s, "panic:") || strings.Contains(s, "out of memory"), s
	case strings.HasPrefix(v.Label, "panic:"), strings.HasPrefix(v.Label, "nontermination"), strings.HasPrefix(v.Label, "deadlock"):
		return (strings.Contains(s, "panic:") || strings.Contains(s, "fatal error") || strings.Contains(s, "STEP-BUDGET")) && !strings.Contains(s, "ASSERT-FAILED"), s
	}
	return strings.Contains(s, "FAIL"), s
}

func doReplayFile(path string) int {
	var r struct {
		Property string            `json:"property"`
		Harness  string            `json:"harness"`
		Pkg      string            `json:"pkg"`
		Func     string            `json:"func"`
		Label    string            `json:"label"`
		Model    map[string]string `json:"model"`
		Native   bool              `json:"native"`
		Params   map[string]int    `json:"params"`
	}
	mustJSON(path, &r)
	if !r.Native {
		fmt.Println("this harness uses engine-level models; replay = re-run of the check:", "./check", r.Property, "quick")
		return 0
	}
	hc := HarnessCfg{Name: r.Harness, Pkg: r.Pkg, Func: r.Func, Native: true, Params: r.Params}
	ok, out := nativeReplay(hc, &Violation{Label: r.Label, Model: r.Model}, path)
	fmt.Println(out)
	if ok {
		fmt.Println("REPRODUCED", r.Label)
		return 1
	}
	fmt.Println("not reproduced")
	return 0
}

// outDir: where evidence and replay files go - /verif itself, or $VERIF_OUT for runs against
// modified trees (seeded changes, negative controls) whose results must not replace the evidence
// of the unchanged tree.
func outDir() string {
	if d := os.Getenv("VERIF_OUT"); d != "" {
		return d
	}
	return verifDir
}
