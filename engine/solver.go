package main

import (
	"bufio"
	"fmt"
	"io"
	"os"
	"os/exec"
	"strings"
	"time"
)

// Solver is one long-lived `z3 -in` process with a shadow copy of the assertion stack
// (so that any verdict query can be dumped as a stand-alone script for cross-checking).
type Solver struct {
	bin     string
	cmd     *exec.Cmd
	in      *bufio.Writer
	inC     io.WriteCloser
	out     *bufio.Reader
	Queries int
	Time    time.Duration
	Errors  []string
	log     io.Writer
	shadow  [][]string
	timeout int
	Slow    int
}

func NewSolver(bin string, timeoutMs int) *Solver {
	args := []string{"-in"}
	if strings.Contains(bin, "cvc5") {
		args = []string{"--incremental", "--lang=smt2", "--produce-models", fmt.Sprintf("--tlimit-per=%d", timeoutMs)}
	}
	cmd := exec.Command(bin, args...)
	in, _ := cmd.StdinPipe()
	outp, _ := cmd.StdoutPipe()
	cmd.Stderr = cmd.Stdout
	if err := cmd.Start(); err != nil {
		panic(err)
	}
	s := &Solver{bin: bin, cmd: cmd, inC: in, in: bufio.NewWriterSize(in, 1<<16), out: bufio.NewReaderSize(outp, 1<<20), shadow: [][]string{nil}, timeout: timeoutMs}
	s.raw("(set-option :print-success false)")
	if !strings.Contains(bin, "cvc5") {
		s.raw(fmt.Sprintf("(set-option :timeout %d)", timeoutMs))
	} else {
		s.raw("(set-logic ALL)")
	}
	return s
}

func (s *Solver) raw(line string) {
	if s.log != nil {
		fmt.Fprintln(s.log, line)
	}
	s.in.WriteString(line)
	s.in.WriteByte('\n')
}

func (s *Solver) Send(line string) {
	s.raw(line)
	top := len(s.shadow) - 1
	s.shadow[top] = append(s.shadow[top], line)
}

func (s *Solver) Push() {
	s.raw("(push 1)")
	s.shadow = append(s.shadow, nil)
}

func (s *Solver) Pop() {
	s.raw("(pop 1)")
	s.shadow = s.shadow[:len(s.shadow)-1]
}

func (s *Solver) readLine() string {
	s.in.Flush()
	l, err := s.out.ReadString('\n')
	if err != nil {
		panic("solver died: " + err.Error() + " " + l)
	}
	return strings.TrimSpace(l)
}

// Check returns "sat", "unsat" or "unknown"; an (error ...) line is returned verbatim and recorded.
func (s *Solver) Check() string {
	t0 := time.Now()
	s.raw("(check-sat)")
	// z3's own :timeout is not always honoured (preprocessing): a watchdog kills the process
	wd := time.AfterFunc(time.Duration(s.timeout)*time.Millisecond+10*time.Second, func() { s.cmd.Process.Kill() })
	r := s.readLine()
	wd.Stop()
	for strings.HasPrefix(r, "(error") || strings.HasPrefix(r, "unsupported") || strings.HasPrefix(r, ";") {
		// an error concerning an earlier command: record and keep reading until the verdict
		s.Errors = append(s.Errors, r)
		if len(s.Errors) > 50 {
			return "error"
		}
		r = s.readLine()
	}
	s.Queries++
	d := time.Since(t0)
	s.Time += d
	if d > 2*time.Second {
		s.Slow++
		if os.Getenv("GOSYM_V") != "" {
			fmt.Fprintf(os.Stderr, "  SLOW query %v -> %s\n", d, r)
		}
	}
	return r
}

// Script returns the whole active assertion stack as a stand-alone SMT-LIB script.
func (s *Solver) Script() string {
	var sb strings.Builder
	for _, lvl := range s.shadow {
		for _, l := range lvl {
			sb.WriteString(l)
			sb.WriteByte('\n')
		}
	}
	sb.WriteString("(check-sat)\n")
	return sb.String()
}

// GetValues returns raw text of (get-value (...)).
func (s *Solver) GetValues(names []string) string {
	if len(names) == 0 {
		return ""
	}
	s.raw("(get-value (" + strings.Join(names, " ") + "))")
	var sb strings.Builder
	depth := 0
	started := false
	inStr := false
	for {
		l := s.readLine()
		sb.WriteString(l)
		sb.WriteString(" ")
		for _, c := range l {
			if c == '"' {
				inStr = !inStr
			}
			if inStr {
				continue
			}
			if c == '(' {
				depth++
				started = true
			} else if c == ')' {
				depth--
			}
		}
		if started && depth <= 0 {
			break
		}
		if !started && l != "" {
			break
		}
	}
	return sb.String()
}

func (s *Solver) Close() {
	s.in.Flush()
	s.inC.Close()
	done := make(chan struct{})
	go func() { s.cmd.Wait(); close(done) }()
	select {
	case <-done:
	case <-time.After(2 * time.Second):
		s.cmd.Process.Kill()
	}
}
