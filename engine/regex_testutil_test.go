package main

import (
	"regexp/syntax"
	"strconv"
)

func mustProg(p string) *syntax.Prog {
	re, err := syntax.Parse(p, syntax.Perl)
	if err != nil {
		panic(err)
	}
	prog, err := syntax.Compile(re.Simplify())
	if err != nil {
		panic(err)
	}
	return prog
}

func hexv(s string) int { v, _ := strconv.ParseInt(s, 16, 32); return int(v) }
