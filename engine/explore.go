package main

import (
	"fmt"
	"os"
	"regexp"
	"sort"
	"strings"
	"sync"
	"time"
)

type pathEnd struct{ reason string }

var forkStats map[string]int
var forkMu sync.Mutex

type Violation struct {
	Label   string            `json:"label"`
	Model   map[string]string `json:"model"`
	Order   []string          `json:"order"`
	Path    []int             `json:"path"`
	Known   string            `json:"known,omitempty"`
	Harness string            `json:"harness"`
	Detail  string            `json:"detail,omitempty"`
}

type KnownFinding struct {
	ID       string `json:"id"`
	Property string `json:"property"`
	Harness  string `json:"harness"`
	Label    string `json:"label"` // assertion / obligation label (prefix match when ending in *)
	When     string `json:"when"`  // SMT-LIB predicate over $nondet placeholders; empty = any input
	What     string `json:"what"`
	Status   string `json:"status"` // "known" or "fixed"
	Commit   string `json:"commit,omitempty"`
}

// Result aggregates everything measured for one harness.
type Result struct {
	mu         sync.Mutex
	Harness    string
	Paths      int
	Oblig      int
	Disch      int
	Nontrivial int
	Viol       map[string]*Violation
	KnownHit   map[string]*Violation
	Reach      map[string]map[string]string
	Incon      map[string]int
	Funcs      map[string]int
	Stubs      map[string]int
	Overrides  map[string]int
	Queries    int
	SolverTime time.Duration
	SolverErr  []string
	MaxDepth   int
	Steps      int64
	VerdictQ   []string // dumped verdict scripts (thorough cross-check)
	Races      []string
	Traces     []*OpTrace
}

func NewResult(h string) *Result {
	return &Result{Harness: h, Viol: map[string]*Violation{}, KnownHit: map[string]*Violation{}, Reach: map[string]map[string]string{},
		Incon: map[string]int{}, Funcs: map[string]int{}, Stubs: map[string]int{}, Overrides: map[string]int{}}
}

type WorkQ struct {
	mu     sync.Mutex
	cond   *sync.Cond
	items  [][]int
	active int
	popped int
	max    int
	dead   time.Time
	over   bool
	stop   func() bool // fail fast: a violation has been recorded, further paths add nothing to the verdict
}

func NewWorkQ(max int, deadline time.Time) *WorkQ {
	q := &WorkQ{max: max, dead: deadline}
	q.cond = sync.NewCond(&q.mu)
	q.items = [][]int{{}}
	return q
}

func (q *WorkQ) Push(p []int) {
	q.mu.Lock()
	q.items = append(q.items, p)
	q.mu.Unlock()
	q.cond.Signal()
}

// Pop blocks until an item is available or all work is finished.
func (q *WorkQ) Pop() ([]int, bool) {
	q.mu.Lock()
	defer q.mu.Unlock()
	for {
		if q.stop != nil && q.stop() {
			q.cond.Broadcast()
			return nil, false
		}
		if q.popped >= q.max || time.Now().After(q.dead) {
			if len(q.items) > 0 {
				q.over = true
			}
			q.cond.Broadcast()
			return nil, false
		}
		if n := len(q.items); n > 0 {
			it := q.items[n-1]
			q.items = q.items[:n-1]
			q.active++
			q.popped++
			return it, true
		}
		if q.active == 0 {
			q.cond.Broadcast()
			return nil, false
		}
		q.cond.Wait()
	}
}

func (q *WorkQ) Done() {
	q.mu.Lock()
	q.active--
	q.mu.Unlock()
	q.cond.Broadcast()
}

type nondet struct {
	Label string
	Name  string // SMT symbol or term
}

type Explorer struct {
	z        *Solver
	q        *WorkQ
	res      *Result
	known    []KnownFinding
	prefix   []int
	taken    []int
	nameCtr  int
	nondets  []nondet
	labelCnt map[string]int
	chooses  []int
	oblOnPath int
	dumpDir  string
	verbose  bool
	site     func() string
}

func (e *Explorer) replaying() bool { return len(e.taken) < len(e.prefix) }

func (e *Explorer) fresh(prefix string) string {
	e.nameCtr++
	return fmt.Sprintf("%s!%d", prefix, e.nameCtr)
}

func (e *Explorer) Declare(name, sort string) { e.z.Send("(declare-const " + name + " " + sort + ")") }

// Name binds an expression to a fresh constant (never define-fun: z3 macro-expands those).
func (e *Explorer) Name(prefix, sort, expr string) string {
	n := e.fresh(prefix)
	e.z.Send("(declare-const " + n + " " + sort + ")")
	e.z.Send("(assert (= " + n + " " + expr + "))")
	return n
}

var symOK = regexp.MustCompile(`^[A-Za-z0-9_.#\-]+$`)

func (e *Explorer) nondetName(label string) string {
	if !symOK.MatchString(label) {
		label = "x"
	}
	k := e.labelCnt[label]
	e.labelCnt[label] = k + 1
	return fmt.Sprintf("|%s#%d|", label, k)
}

func (e *Explorer) NondetBV(label string, w int) Int {
	n := e.nondetName(label)
	e.Declare(n, fmt.Sprintf("(_ BitVec %d)", w))
	e.nondets = append(e.nondets, nondet{label, n})
	return Int{W: w, S: n}
}

func (e *Explorer) NondetBool(label string) Bool {
	n := e.nondetName(label)
	e.Declare(n, "Bool")
	e.nondets = append(e.nondets, nondet{label, n})
	return Bool{S: n}
}

func (e *Explorer) NondetStr(label string) Str {
	n := e.nondetName(label)
	e.Declare(n, "String")
	e.nondets = append(e.nondets, nondet{label, n})
	return Str{S: n}
}

func (e *Explorer) incon(msg string) {
	e.res.mu.Lock()
	e.res.Incon[msg]++
	e.res.mu.Unlock()
}

func (e *Explorer) check(c string) string {
	e.z.Push()
	e.z.Send("(assert " + c + ")")
	t0 := time.Now()
	r := e.z.Check()
	if r != "sat" && r != "unsat" {
		e.incon("solver: " + r)
	}
	if os.Getenv("GOSYM_V") != "" && time.Since(t0) > 2*time.Second {
		w := ""
		if e.site != nil {
			w = e.site()
		}
		fmt.Fprintf(os.Stderr, "  SLOWQ %v %s at %s: %s\n", time.Since(t0).Round(time.Millisecond), r, w, trunc(c, 300))
	}
	return r
}
func (e *Explorer) pop() { e.z.Pop() }

func (e *Explorer) Assume(b Bool) {
	if b.IsC() {
		if !b.C {
			panic(pathEnd{"assume false"})
		}
		return
	}
	e.z.Send("(assert " + b.S + ")")
}

// Branch decides a symbolic condition, forking when both sides are feasible.
func (e *Explorer) Branch(c Bool) bool {
	if c.IsC() {
		return c.C
	}
	e.oblOnPath++
	idx := len(e.taken)
	if idx < len(e.prefix) {
		d := e.prefix[idx] != 0
		e.taken = append(e.taken, e.prefix[idx])
		if d {
			e.Assume(c)
		} else {
			e.Assume(Not(c))
		}
		return d
	}
	if len(e.taken) > 60000 {
		e.incon("unwinding: more than 60000 decisions on one path (loop over symbolic data?)")
		panic(pathEnd{"decision budget"})
	}
	t := e.check(c.S)
	e.pop()
	var d bool
	if t == "sat" || t == "unknown" {
		f := e.check("(not " + c.S + ")")
		e.pop()
		if f == "sat" || f == "unknown" {
			alt := append(append([]int{}, e.taken...), 0)
			e.q.Push(alt)
			if e.site != nil && forkStats != nil {
				forkMu.Lock()
				forkStats[e.site()]++
				forkMu.Unlock()
			}
		}
		d = true
	} else if t == "unsat" {
		d = false
	} else {
		panic(pathEnd{"solver error"})
	}
	if d {
		e.taken = append(e.taken, 1)
		e.Assume(c)
	} else {
		e.taken = append(e.taken, 0)
		e.Assume(Not(c))
	}
	return d
}

// ConcretizeBV enumerates the feasible values of a bit-vector term: the solver proposes a value
// (model), the path forks on "term == value" / "term != value".
func (e *Explorer) ConcretizeBV(term string, w int) (uint64, bool) {
	for iter := 0; iter < 5000; iter++ {
		k := e.Aux(func() int {
			e.z.Push()
			r := e.z.Check()
			v := -1
			if r == "sat" {
				vals := parseValues(e.z.GetValues([]string{term}))
				if len(vals) == 1 {
					v = int(parseBVLit(vals[0]))
				}
			} else if r != "unsat" {
				e.incon("solver: " + r)
			}
			e.z.Pop()
			return v
		})
		if k < 0 {
			panic(pathEnd{"infeasible or unknown at concretization"})
		}
		eq := Bool{S: "(= " + term + " " + CI(w, uint64(k)).T() + ")"}
		idx := len(e.taken)
		if idx < len(e.prefix) {
			d := e.prefix[idx]
			e.taken = append(e.taken, d)
			if d != 0 {
				e.Assume(eq)
				return uint64(k), true
			}
			e.Assume(Not(eq))
			continue
		}
		// eq is satisfiable (it came from a model); is there another value?
		f := e.check("(not " + eq.S + ")")
		e.pop()
		if f == "sat" || f == "unknown" {
			e.q.Push(append(append([]int{}, e.taken...), 0))
		}
		e.taken = append(e.taken, 1)
		e.Assume(eq)
		return uint64(k), true
	}
	return 0, false
}

func parseBVLit(s string) uint64 {
	s = strings.TrimSpace(s)
	var v uint64
	switch {
	case strings.HasPrefix(s, "#x"):
		fmt.Sscanf(s[2:], "%x", &v)
	case strings.HasPrefix(s, "#b"):
		for _, c := range s[2:] {
			v = v<<1 | uint64(c-'0')
		}
	case strings.HasPrefix(s, "(_ bv"):
		fmt.Sscanf(s[5:], "%d", &v)
	}
	return v
}

// Choose is a free nondeterministic choice among n alternatives (all assumed feasible).
func (e *Explorer) Choose(n int) int {
	v := e.choose(n)
	e.chooses = append(e.chooses, v)
	return v
}

func (e *Explorer) choose(n int) int {
	if n <= 1 {
		return 0
	}
	idx := len(e.taken)
	if idx < len(e.prefix) {
		e.taken = append(e.taken, e.prefix[idx])
		return e.prefix[idx]
	}
	for k := n - 1; k >= 1; k-- {
		alt := append(append([]int{}, e.taken...), k)
		e.q.Push(alt)
	}
	e.taken = append(e.taken, 0)
	return 0
}

// Aux records a solver-derived auxiliary decision so that replays do not repeat the query.
func (e *Explorer) Aux(f func() int) int {
	idx := len(e.taken)
	if idx < len(e.prefix) {
		e.taken = append(e.taken, e.prefix[idx])
		return e.prefix[idx]
	}
	v := f()
	e.taken = append(e.taken, v)
	return v
}

func (e *Explorer) matchKnown(label string) []KnownFinding {
	var out []KnownFinding
	for _, k := range e.known {
		if k.Status == "fixed" {
			continue
		}
		if k.Harness != "" && k.Harness != e.res.Harness {
			continue
		}
		if k.Label == label || (strings.HasSuffix(k.Label, "*") && strings.HasPrefix(label, strings.TrimSuffix(k.Label, "*"))) {
			out = append(out, k)
		}
	}
	return out
}

var placeholder = regexp.MustCompile(`\$[A-Za-z0-9_.\-]+(#[0-9]+)?`)

// resolveWhen substitutes $label / $label#k with the SMT names of this path's nondets.
func (e *Explorer) resolveWhen(w string) (string, bool) {
	if strings.TrimSpace(w) == "" {
		return "true", true
	}
	ok := true
	out := placeholder.ReplaceAllStringFunc(w, func(p string) string {
		name := p[1:]
		if !strings.Contains(name, "#") {
			name += "#0"
		}
		sym := "|" + name + "|"
		for _, nd := range e.nondets {
			if nd.Name == sym {
				return sym
			}
		}
		ok = false
		return "false"
	})
	return out, ok
}

// Oblige: cond must hold on every extension of this path; a violation is recorded with a model.
func (e *Explorer) Oblige(c Bool, label string) {
	if e.replaying() {
		e.Assume(c)
		return
	}
	e.res.mu.Lock()
	e.res.Oblig++
	e.res.mu.Unlock()
	if c.IsC() {
		if c.C {
			e.res.mu.Lock()
			e.res.Disch++
			e.res.mu.Unlock()
			return
		}
		e.violated("true", label)
		panic(pathEnd{"violated " + label})
	}
	e.oblOnPath++
	r := e.check("(not " + c.S + ")")
	e.pop()
	if r == "sat" {
		e.violated("(not "+c.S+")", label)
		ok := e.check(c.S)
		e.pop()
		if ok != "sat" {
			panic(pathEnd{"violated " + label})
		}
		e.Assume(c)
		return
	}
	if r == "unsat" {
		e.res.mu.Lock()
		e.res.Disch++
		e.res.mu.Unlock()
		if e.dumpDir != "" {
			e.dumpVerdict("(not "+c.S+")", label)
		}
	}
	e.Assume(c)
}

func (e *Explorer) dumpVerdict(neg, label string) {
	e.res.mu.Lock()
	n := len(e.res.VerdictQ)
	if n >= 400 {
		e.res.mu.Unlock()
		return
	}
	fn := fmt.Sprintf("%s/%s_%04d.smt2", e.dumpDir, strings.ReplaceAll(e.res.Harness, "/", "_"), n)
	e.res.VerdictQ = append(e.res.VerdictQ, fn)
	e.res.mu.Unlock()
	e.z.Push()
	e.z.Send("(assert " + neg + ")")
	s := "; expect unsat: " + label + "\n" + e.z.Script()
	e.z.Pop()
	os.WriteFile(fn, []byte(s), 0644)
}

// Fail records an unconditional violation on the current path (e.g. a definite panic).
func (e *Explorer) Fail(label string) {
	if !e.replaying() {
		e.res.mu.Lock()
		e.res.Oblig++
		e.res.mu.Unlock()
		e.violated("true", label)
	}
	panic(pathEnd{"violated " + label})
}

// violated: the current path plus `neg` is satisfiable (or neg is "true"); triage against known findings.
func (e *Explorer) violated(neg, label string) {
	kfs := e.matchKnown(label)
	if len(kfs) == 0 {
		r := e.check(neg)
		var mdl map[string]string
		var order []string
		if r == "sat" {
			mdl, order = e.model()
		}
		e.pop()
		if r != "sat" {
			return // infeasible, or undecided (already counted as inconclusive by check)
		}
		e.record(label, mdl, order, "")
		return
	}
	var disj []string
	for _, k := range kfs {
		w, ok := e.resolveWhen(k.When)
		if !ok {
			continue
		}
		disj = append(disj, w)
		r := e.check("(and " + neg + " " + w + ")")
		if r == "sat" {
			mdl, order := e.model()
			e.pop()
			e.record(label, mdl, order, k.ID)
		} else {
			e.pop()
		}
	}
	q := neg
	if len(disj) > 0 {
		q = "(and " + neg + " (not (or false " + strings.Join(disj, " ") + ")))"
	}
	r := e.check(q)
	if r == "sat" {
		mdl, order := e.model()
		e.pop()
		e.record(label, mdl, order, "")
		return
	}
	e.pop()
}

func (e *Explorer) model() (map[string]string, []string) {
	var names []string
	for _, nd := range e.nondets {
		names = append(names, nd.Name)
	}
	m := map[string]string{}
	var order []string
	for i, c := range e.chooses {
		k := fmt.Sprintf("choose#%d", i)
		m[k] = fmt.Sprint(c)
		order = append(order, k)
	}
	if len(names) == 0 {
		return m, order
	}
	raw := e.z.GetValues(names)
	vals := parseValues(raw)
	for i, nd := range e.nondets {
		if i < len(vals) {
			key := strings.Trim(nd.Name, "|")
			if strings.HasPrefix(nd.Name, "(select ") {
				key = nd.Label
			}
			m[key] = vals[i]
			order = append(order, key)
		}
	}
	return m, order
}

func (e *Explorer) record(label string, mdl map[string]string, order []string, known string) {
	v := &Violation{Label: label, Model: mdl, Order: order, Path: append([]int{}, e.taken...), Known: known, Harness: e.res.Harness}
	e.res.mu.Lock()
	defer e.res.mu.Unlock()
	if known != "" {
		if _, ok := e.res.KnownHit[known]; !ok {
			e.res.KnownHit[known] = v
		}
		return
	}
	if _, ok := e.res.Viol[label]; !ok {
		e.res.Viol[label] = v
	}
}

func (e *Explorer) Reach(label string) {
	if e.replaying() {
		return
	}
	e.res.mu.Lock()
	_, seen := e.res.Reach[label]
	e.res.mu.Unlock()
	if seen {
		return
	}
	e.z.Push()
	r := e.z.Check()
	if r == "sat" {
		mdl, _ := e.model()
		e.res.mu.Lock()
		if _, ok := e.res.Reach[label]; !ok {
			e.res.Reach[label] = mdl
		}
		e.res.mu.Unlock()
	}
	e.z.Pop()
}

// RunPath executes run() once along prefix.
func (e *Explorer) RunPath(prefix []int, run func()) {
	e.prefix = prefix
	e.taken = nil
	e.nondets = nil
	e.chooses = nil
	e.nameCtr = 0
	e.oblOnPath = 0
	e.labelCnt = map[string]int{}
	e.z.Push()
	func() {
		defer func() {
			if r := recover(); r != nil {
				switch x := r.(type) {
				case pathEnd:
					if e.verbose {
						fmt.Fprintf(os.Stderr, "  path end: %s (decisions=%d)\n", x.reason, len(e.taken))
					}
				default:
					panic(r)
				}
			}
		}()
		run()
	}()
	e.z.Pop()
	e.res.mu.Lock()
	e.res.Paths++
	if e.oblOnPath > 0 {
		e.res.Nontrivial++
	}
	e.res.mu.Unlock()
}

// --- parsing of (get-value) output ---

func parseValues(raw string) []string {
	// raw: ((name value) (name value) ...)
	toks := tokenize(raw)
	var out []string
	pos := 0
	var parse func() string
	parse = func() string {
		if pos >= len(toks) {
			return ""
		}
		t := toks[pos]
		pos++
		if t != "(" {
			return t
		}
		var parts []string
		for pos < len(toks) && toks[pos] != ")" {
			parts = append(parts, parse())
		}
		pos++
		return "(" + strings.Join(parts, " ") + ")"
	}
	if pos < len(toks) && toks[pos] == "(" {
		pos++
		for pos < len(toks) && toks[pos] == "(" {
			pos++
			_ = parse() // name
			v := parse()
			if pos < len(toks) && toks[pos] == ")" {
				pos++
			}
			out = append(out, v)
		}
	}
	return out
}

func tokenize(s string) []string {
	var toks []string
	i := 0
	for i < len(s) {
		c := s[i]
		switch {
		case c == '(' || c == ')':
			toks = append(toks, string(c))
			i++
		case c == ' ' || c == '\n' || c == '\t' || c == '\r':
			i++
		case c == '"':
			j := i + 1
			for j < len(s) {
				if s[j] == '"' {
					if j+1 < len(s) && s[j+1] == '"' {
						j += 2
						continue
					}
					break
				}
				j++
			}
			toks = append(toks, s[i:min(j+1, len(s))])
			i = j + 1
		case c == '|':
			j := strings.IndexByte(s[i+1:], '|')
			if j < 0 {
				toks = append(toks, s[i:])
				i = len(s)
			} else {
				toks = append(toks, s[i:i+j+2])
				i += j + 2
			}
		default:
			j := i
			for j < len(s) && !strings.ContainsRune("() \n\t\r", rune(s[j])) {
				j++
			}
			toks = append(toks, s[i:j])
			i = j
		}
	}
	return toks
}

func sortedKeys[V any](m map[string]V) []string {
	var ks []string
	for k := range m {
		ks = append(ks, k)
	}
	sort.Strings(ks)
	return ks
}
