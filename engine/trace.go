package main

import (
	"fmt"
	"sort"
	"strings"
)

// OpTrace records, for one API operation on one feasible path, the accesses to heap cells of the
// code under test that existed before the operation started (shared state), each with the set of
// locks held (name -> held in write mode).
type Access struct {
	Cell  string          `json:"cell"`
	Write bool            `json:"write"`
	Locks map[string]bool `json:"locks"`
	Where string          `json:"where"`
}

type OpTrace struct {
	Op     string   `json:"op"`
	Path   int      `json:"-"`
	Acc    []Access `json:"accesses"`
	Events []string `json:"events"`
	epoch  int
	seen   map[string]bool
}

func (t *OpTrace) lockset(m *Machine) (map[string]bool, string) {
	ls := map[string]bool{}
	var parts []string
	for _, s := range m.locks {
		if s.writer {
			ls[s.name] = true
			parts = append(parts, s.name+":W")
		} else if s.readers > 0 {
			ls[s.name] = false
			parts = append(parts, s.name+":R")
		}
	}
	sort.Strings(parts)
	return ls, strings.Join(parts, ",")
}

func (t *OpTrace) access(m *Machine, c *Cell, write bool) {
	if !c.Track || c.Epoch >= t.epoch {
		return
	}
	t.add(m, c.Name, write)
}

func (t *OpTrace) accessMap(m *Machine, mo *MapObj, write bool) {
	if !mo.Track || mo.Epoch >= t.epoch {
		return
	}
	t.add(m, mo.Name+"[map]", write)
}

func (t *OpTrace) add(m *Machine, name string, write bool) {
	if strings.HasSuffix(name, "Lock") || strings.HasSuffix(name, "Mutex") {
		return // the mutex pointer fields themselves are read without synchronisation by design
	}
	ls, key := t.lockset(m)
	k := fmt.Sprintf("%s/%v/%s", name, write, key)
	if t.seen == nil {
		t.seen = map[string]bool{}
	}
	if t.seen[k] {
		return
	}
	t.seen[k] = true
	t.Acc = append(t.Acc, Access{Cell: name, Write: write, Locks: ls, Where: m.where()})
}

func (t *OpTrace) lockEvent(m *Machine, c *Cell, ls *lockState, acquire, write bool) {
	k := "rel"
	if acquire {
		k = "acq"
	}
	md := "R"
	if write {
		md = "W"
	}
	t.Events = append(t.Events, k+":"+ls.name+":"+md)
}

func (t *OpTrace) finish(m *Machine) {}

// ---- race analysis: a schedule query per candidate pair, decided by the solver ----

type raceCand struct {
	Cell, OpA, OpB, WhereA, WhereB string
	A, B                           Access
}

func (r raceCand) label() string {
	a, b := r.OpA, r.OpB
	if i := strings.Index(a, "/"); i >= 0 {
		a = a[i+1:]
	}
	if i := strings.Index(b, "/"); i >= 0 {
		b = b[i+1:]
	}
	if b < a {
		a, b = b, a
	}
	return "race:" + r.Cell + " between " + a + " and " + b
}

// findRaces combines the per-path traces of operations that may run concurrently. For every pair
// of accesses to the same cell with at least one write, a schedule query asks the solver whether
// both accesses can happen at the same instant under program order and mutual exclusion of the
// locks held around them; sat = data race.
func findRaces(res *Result, z3bin string) []raceCand {
	seen := map[string]bool{}
	var out []raceCand
	var z *Solver
	for i, ta := range res.Traces {
		for j, tb := range res.Traces {
			if j < i {
				continue
			}
			if !mayRunConcurrently(ta.Op, tb.Op) {
				continue
			}
			for _, a := range ta.Acc {
				for _, b := range tb.Acc {
					if a.Cell != b.Cell || (!a.Write && !b.Write) {
						continue
					}
					c := raceCand{Cell: a.Cell, OpA: ta.Op, OpB: tb.Op, WhereA: a.Where, WhereB: b.Where, A: a, B: b}
					key := c.label() + "|" + lockKey(a) + "|" + lockKey(b)
					if seen[key] {
						continue
					}
					seen[key] = true
					if z == nil {
						z = NewSolver(z3bin, 10000)
					}
					res.Oblig++
					if scheduleQuery(z, a, b) {
						out = append(out, c)
					} else {
						res.Disch++
					}
					res.Queries++
				}
			}
		}
	}
	if z != nil {
		res.SolverTime += z.Time
		z.Close()
	}
	return out
}

func lockKey(a Access) string {
	var p []string
	for l, w := range a.Locks {
		p = append(p, fmt.Sprintf("%s:%v", l, w))
	}
	sort.Strings(p)
	return strings.Join(p, ",")
}

// operations tagged "init:" run before the object is shared (single-threaded by construction)
func mayRunConcurrently(a, b string) bool {
	// "<pre-state>/<op>": only operations started from the same pre-state are combined
	sa, sb := strings.SplitN(a, "/", 2), strings.SplitN(b, "/", 2)
	return len(sa) == 2 && len(sb) == 2 && sa[0] == sb[0]
}

// scheduleQuery: integer timestamps; each thread: acq_L < access < rel_L for every lock it holds;
// locks exclude each other unless both sides hold them in read mode; can both accesses coincide?
func scheduleQuery(z *Solver, a, b Access) bool {
	z.Push()
	defer z.Pop()
	z.Send("(declare-const ta Int)")
	z.Send("(declare-const tb Int)")
	i := 0
	for l, wa := range a.Locks {
		acqA, relA := fmt.Sprintf("acqA%d", i), fmt.Sprintf("relA%d", i)
		z.Send("(declare-const " + acqA + " Int)")
		z.Send("(declare-const " + relA + " Int)")
		z.Send("(assert (and (< " + acqA + " ta) (< ta " + relA + ")))")
		if wb, ok := b.Locks[l]; ok && (wa || wb) {
			acqB, relB := fmt.Sprintf("acqB%d", i), fmt.Sprintf("relB%d", i)
			z.Send("(declare-const " + acqB + " Int)")
			z.Send("(declare-const " + relB + " Int)")
			z.Send("(assert (and (< " + acqB + " tb) (< tb " + relB + ")))")
			z.Send("(assert (or (< " + relA + " " + acqB + ") (< " + relB + " " + acqA + ")))")
		}
		i++
	}
	z.Send("(assert (= ta tb))")
	return z.Check() == "sat"
}
