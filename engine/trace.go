package main

import (
	"fmt"
	"sort"
	"strings"
)

// OpTrace records, for one API operation on one feasible path, the lock events and the accesses to
// heap cells that existed before the operation started (i.e. shared state), each with the lockset held.
type Access struct {
	Cell   string `json:"cell"`
	Write  bool   `json:"write"`
	Locks  string `json:"locks"` // sorted "name:W" / "name:R"
	Where  string `json:"where"`
	id     interface{}
	lockIDs map[*Cell]bool
	lockW   map[*Cell]bool
}

type OpTrace struct {
	Op     string   `json:"op"`
	Path   int      `json:"-"`
	Acc    []Access `json:"accesses"`
	Events []string `json:"events"`
	epoch  int
	seen   map[string]bool
}

func (t *OpTrace) lockset(m *Machine) (string, map[*Cell]bool, map[*Cell]bool) {
	var parts []string
	ids := map[*Cell]bool{}
	ws := map[*Cell]bool{}
	for c, ls := range m.locks {
		if ls.writer {
			parts = append(parts, ls.name+":W")
			ids[c] = true
			ws[c] = true
		} else if ls.readers > 0 {
			parts = append(parts, ls.name+":R")
			ids[c] = true
		}
	}
	sort.Strings(parts)
	return strings.Join(parts, ","), ids, ws
}

func (t *OpTrace) access(m *Machine, c *Cell, write bool) {
	if c.Epoch >= t.epoch || c.Name == "" {
		return
	}
	t.add(m, c, c.Name, write)
}

func (t *OpTrace) accessMap(m *Machine, mo *MapObj, write bool) {
	if mo.Epoch >= t.epoch {
		return
	}
	n := mo.Name
	if n == "" {
		n = "map"
	}
	t.add(m, mo, n, write)
}

func (t *OpTrace) add(m *Machine, id interface{}, name string, write bool) {
	ls, ids, ws := t.lockset(m)
	key := fmt.Sprintf("%p/%v/%s", id, write, ls)
	if t.seen == nil {
		t.seen = map[string]bool{}
	}
	if t.seen[key] {
		return
	}
	t.seen[key] = true
	t.Acc = append(t.Acc, Access{Cell: name, Write: write, Locks: ls, Where: m.where(), id: id, lockIDs: ids, lockW: ws})
}

func (t *OpTrace) lockEvent(m *Machine, c *Cell, ls *lockState, acquire, write bool) {
	k := "rel"
	if acquire {
		k = "acq"
	}
	md := "R"
	if write {
		md = "W"
	}
	t.Events = append(t.Events, k+":"+ls.name+":"+md)
}

func (t *OpTrace) finish(m *Machine) {}
