package main

import (
	"fmt"
	"go/types"
	"math/big"
	"strings"

	"golang.org/x/tools/go/ssa"
)

// Val is a symbolic Go value. Concrete parts are folded in Go; symbolic leaves are SMT-LIB terms.
type Val interface{}

// Int is a fixed-width bit-vector (Go wrap-around semantics).
type Int struct {
	W int
	C uint64
	S string // SMT term when symbolic
	N string // optional Int-sorted twin (e.g. (str.len s))
}

type Bool struct {
	C bool
	S string
}

// Str is a Go string: concrete (C), an SMT String term (S), or a fixed-length sequence of byte terms (B).
type Str struct {
	C   string
	S   string
	B   []Int
	IsB bool
	P   []strPart // structured form of S: literals and big-integer renderings (see strEq)
	Org *Str      // for byte-strings produced by an injective hash: the hashed string
}

// strPart: a literal, or the decimal rendering of a 128-bit integer term (digits only, never contains '_')
type strPart struct {
	Lit string
	Big string
	Hex bool // Big is rendered as lower-case hex of the big-endian bytes of a NON-NEGATIVE value (hex.EncodeToString(x.Bytes()))
}

func (s Str) IsC() bool { return s.S == "" && !s.IsB }

func smtStrLit(s string) string {
	var sb strings.Builder
	sb.WriteByte('"')
	for i := 0; i < len(s); i++ {
		c := s[i]
		if c == '"' {
			sb.WriteString("\"\"")
		} else if c < 0x20 || c > 0x7e || c == '\\' {
			fmt.Fprintf(&sb, "\\u{%x}", c)
		} else {
			sb.WriteByte(c)
		}
	}
	sb.WriteByte('"')
	return sb.String()
}

func (s Str) T() string {
	if s.S != "" {
		return s.S
	}
	return smtStrLit(s.C)
}

type Cell struct {
	V     Val
	Epoch int    // allocation epoch (for race tracking)
	Name  string // optional debug name (field path)
	Track bool   // field of a struct type declared by the code under test (race tracking)
}

type Ptr struct {
	C   *Cell
	BA  *ByteArr
	Idx Int
}

type Struct struct{ F []*Cell }
type Array struct{ E []*Cell }

// ByteArr is the backing store of every byte buffer: an SMT array BV64 -> BV8.
type ByteArr struct {
	Org     *Str // content = injective hash of this string (whole array)
	BigAbs  string // content = minimal big-endian bytes of this non-negative 256-bit term ((*big.Int).Bytes()); not materialised
	T       string
	Cap     Int
	Known   map[uint64]Int // overlay of writes at concrete indices (applied on top of T)
	Zero    bool           // T is the pristine all-zero array
	Dirty   map[uint64]bool // cached writes not yet contained in T
}

type Slice struct {
	A             *Array
	B             *ByteArr
	Off, Len, Cap Int
	Nil           bool
}

type Iface struct {
	T types.Type
	V Val
}

type Tuple []Val

// Big models math/big.Int as a bigW-bit two's complement bit-vector.
type Big struct {
	T string   // SMT term (when V == nil)
	V *big.Int // concrete value
}

func (b Big) Term() string {
	if b.V != nil {
		v := new(big.Int).Set(b.V)
		if v.Sign() < 0 {
			v.Add(v, new(big.Int).Lsh(big.NewInt(1), bigW))
		}
		return fmt.Sprintf("(_ bv%s %d)", v.String(), bigW)
	}
	return b.T
}

type Func struct {
	Fn  *ssa.Function
	Env []Val
	Nat string // native stub name bound as a value
}

type Opaque struct{ Name string }

type mapEntry struct {
	K Val
	V *Cell
}
type MapObj struct {
	E     []mapEntry
	Epoch int
	Name  string
	Track bool
}
type Map struct{ M *MapObj }

type ChanObj struct{ id int }
type Chan struct{ C *ChanObj }

// iterator state for Range/Next
type Iter struct {
	M    *MapObj
	Keys []mapEntry
	Pos  int
	S    Str
}

func mask(w int) uint64 {
	if w >= 64 {
		return ^uint64(0)
	}
	return (uint64(1) << uint(w)) - 1
}
func CI(w int, v uint64) Int { return Int{W: w, C: v & mask(w)} }
func (i Int) IsC() bool      { return i.S == "" }
func (i Int) T() string {
	if i.S != "" {
		return i.S
	}
	return fmt.Sprintf("(_ bv%d %d)", i.C&mask(i.W), i.W)
}
func (i Int) Signed() int64 {
	if i.W >= 64 {
		return int64(i.C)
	}
	if i.C&(uint64(1)<<uint(i.W-1)) != 0 {
		return int64(i.C | ^mask(i.W))
	}
	return int64(i.C)
}
func CB(b bool) Bool     { return Bool{C: b} }
func (b Bool) IsC() bool { return b.S == "" }
func (b Bool) T() string {
	if b.S != "" {
		return b.S
	}
	if b.C {
		return "true"
	}
	return "false"
}
func Not(b Bool) Bool {
	if b.IsC() {
		return CB(!b.C)
	}
	if strings.HasPrefix(b.S, "(not ") && balanced(b.S[5:len(b.S)-1]) {
		return Bool{S: b.S[5 : len(b.S)-1]}
	}
	return Bool{S: "(not " + b.S + ")"}
}
func balanced(s string) bool {
	d := 0
	for i := 0; i < len(s); i++ {
		switch s[i] {
		case '(':
			d++
		case ')':
			d--
			if d < 0 {
				return false
			}
			if d == 0 && i != len(s)-1 {
				return false
			}
		case ' ':
			if d == 0 {
				return false
			}
		case '"':
			return false
		}
	}
	return d == 0
}
func And(a, b Bool) Bool {
	if a.IsC() {
		if !a.C {
			return CB(false)
		}
		return b
	}
	if b.IsC() {
		if !b.C {
			return CB(false)
		}
		return a
	}
	return Bool{S: "(and " + a.S + " " + b.S + ")"}
}
func Or(a, b Bool) Bool {
	if a.IsC() {
		if a.C {
			return CB(true)
		}
		return b
	}
	if b.IsC() {
		if b.C {
			return CB(true)
		}
		return a
	}
	return Bool{S: "(or " + a.S + " " + b.S + ")"}
}

func intWidth(t types.Type) (int, bool, bool) { // width, signed, ok
	b, ok := t.Underlying().(*types.Basic)
	if !ok {
		return 0, false, false
	}
	switch b.Kind() {
	case types.Int8:
		return 8, true, true
	case types.Int16:
		return 16, true, true
	case types.Int32, types.UntypedRune:
		return 32, true, true
	case types.Int64, types.Int, types.UntypedInt:
		return 64, true, true
	case types.Uint8:
		return 8, false, true
	case types.Uint16:
		return 16, false, true
	case types.Uint32:
		return 32, false, true
	case types.Uint64, types.Uint, types.Uintptr:
		return 64, false, true
	}
	return 0, false, false
}

func isByte(t types.Type) bool {
	b, ok := t.Underlying().(*types.Basic)
	return ok && b.Kind() == types.Uint8
}

func isFloat(t types.Type) bool {
	b, ok := t.Underlying().(*types.Basic)
	return ok && (b.Info()&(types.IsFloat|types.IsComplex)) != 0
}

func isNamed(t types.Type, pkg, name string) bool {
	n, ok := t.(*types.Named)
	return ok && n.Obj().Pkg() != nil && n.Obj().Pkg().Path() == pkg && n.Obj().Name() == name
}

func isBigInt(t types.Type) bool { return isNamed(t, "math/big", "Int") }

const bigW = 256 // width of the bit-vector standing for a math/big.Int (exact for values of up to 31 bytes)
const bigZero = "(_ bv0 256)"
const arrSort = "(Array (_ BitVec 64) (_ BitVec 8))"
const zeroArr = "((as const " + arrSort + ") #x00)"

func (m *Machine) newCell(v Val) *Cell { return &Cell{V: v, Epoch: m.epoch} }

func (m *Machine) zero(t types.Type) Val {
	if isBigInt(t) {
		return Big{V: new(big.Int)}
	}
	switch u := t.Underlying().(type) {
	case *types.Basic:
		if w, _, ok := intWidth(t); ok {
			return CI(w, 0)
		}
		switch u.Kind() {
		case types.Bool, types.UntypedBool:
			return CB(false)
		case types.String, types.UntypedString:
			return Str{}
		case types.UnsafePointer:
			return Ptr{}
		case types.Float32, types.Float64, types.UntypedFloat, types.Complex128, types.Complex64:
			return Opaque{Name: "float"}
		case types.UntypedNil:
			return Ptr{}
		case types.Invalid:
			return nil
		}
		panic("zero: basic " + u.String())
	case *types.Pointer:
		return Ptr{}
	case *types.Struct:
		s := Struct{F: make([]*Cell, u.NumFields())}
		tn := ""
		track := false
		if n, ok := t.(*types.Named); ok {
			tn = n.Obj().Name() + "."
			track = m.underTest(n.Obj())
		}
		for i := range s.F {
			s.F[i] = m.newCell(m.zero(u.Field(i).Type()))
			s.F[i].Name = tn + u.Field(i).Name()
			s.F[i].Track = track
		}
		return s
	case *types.Array:
		if isByte(u.Elem()) {
			return newByteArr(CI(64, uint64(u.Len())))
		}
		a := &Array{E: make([]*Cell, u.Len())}
		for i := range a.E {
			a.E[i] = m.newCell(m.zero(u.Elem()))
		}
		return a
	case *types.Slice:
		return Slice{Nil: true, Off: CI(64, 0), Len: CI(64, 0), Cap: CI(64, 0)}
	case *types.Interface:
		return Iface{}
	case *types.Signature:
		return Func{}
	case *types.Map:
		return Map{}
	case *types.Chan:
		return Chan{}
	case *types.Tuple:
		tu := make(Tuple, u.Len())
		for i := range tu {
			tu[i] = m.zero(u.At(i).Type())
		}
		return tu
	case *types.TypeParam:
		return Opaque{Name: "typeparam"}
	}
	panic("zero: " + t.String())
}

// copyVal: by-value copy (structs and arrays are values in Go).
func (m *Machine) copyVal(v Val) Val {
	switch x := v.(type) {
	case Struct:
		n := Struct{F: make([]*Cell, len(x.F))}
		for i, c := range x.F {
			n.F[i] = &Cell{V: m.copyVal(c.V), Epoch: m.epoch, Name: c.Name, Track: c.Track}
		}
		return n
	case *Array:
		n := &Array{E: make([]*Cell, len(x.E))}
		for i, c := range x.E {
			n.E[i] = &Cell{V: m.copyVal(c.V), Epoch: m.epoch}
		}
		return n
	case *ByteArr:
		return cloneByteArr(x)
	case Tuple:
		n := make(Tuple, len(x))
		for i := range x {
			n[i] = m.copyVal(x[i])
		}
		return n
	}
	return v
}

// assignInto stores v into cell c preserving the identity of nested cells (field pointers stay valid).
func (m *Machine) assignInto(c *Cell, v Val) {
	switch nv := v.(type) {
	case Struct:
		if old, ok := c.V.(Struct); ok && len(old.F) == len(nv.F) {
			for i := range nv.F {
				m.assignInto(old.F[i], nv.F[i].V)
			}
			return
		}
	case *Array:
		if old, ok := c.V.(*Array); ok && len(old.E) == len(nv.E) {
			for i := range nv.E {
				m.assignInto(old.E[i], nv.E[i].V)
			}
			return
		}
	case *ByteArr:
		if old, ok := c.V.(*ByteArr); ok {
			n := cloneByteArr(nv)
			*old = *n
			return
		}
	}
	c.V = m.copyVal(v)
}

// underTest: declared by the module under test, not by an injected harness file.
func (m *Machine) underTest(o types.Object) bool {
	if o.Pkg() == nil || !strings.HasPrefix(o.Pkg().Path(), m.modPrefix) || strings.Contains(o.Pkg().Path(), "zz_verif") {
		return false
	}
	f := m.prog.Fset.Position(o.Pos()).Filename
	return !strings.Contains(f, "zz_verif_")
}
