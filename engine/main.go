package main

import (
	"encoding/json"
	"flag"
	"fmt"
	"os"
	"path/filepath"
	"runtime"
	"sort"
	"strings"
	"sync"
	"time"

	"golang.org/x/tools/go/packages"
	"golang.org/x/tools/go/ssa"
	"golang.org/x/tools/go/ssa/ssautil"
)

type HarnessCfg struct {
	Name      string         `json:"name"`
	Pkg       string         `json:"pkg"`  // directory under /repo ("" = root package)
	Func      string         `json:"func"` // harness entry point
	Quick     map[string]int `json:"quick"`
	Thorough  map[string]int `json:"thorough"`
	Tier      string         `json:"tier"` // "" = both, "thorough" = thorough only
	Native    bool           `json:"native"`
	MaxPaths  int            `json:"maxpaths"`
	MustReach []string       `json:"must_reach"`
	TimeoutS  int            `json:"timeout_s"`
	What      string         `json:"what"`
	Solver    string         `json:"solver"` // "" = z3, "cvc5"
	Params    map[string]int `json:"-"`
	MapOrders bool           `json:"-"`
}

type PropCfg struct {
	Title       string       `json:"title"`
	Harnesses   []HarnessCfg `json:"harnesses"`
	Assumptions []string     `json:"assumptions"`
	Bounds      string       `json:"bounds"`
	Outside     []string     `json:"outside"`
}

var (
	verifDir = "/verif"
	repoDir  = "/repo"
)

func main() {
	prop := flag.String("prop", "", "property id")
	tier := flag.String("tier", "quick", "quick|thorough")
	only := flag.String("only", "", "run only this harness (no evidence written)")
	workers := flag.Int("workers", runtime.NumCPU(), "")
	z3bin := flag.String("z3", "z3", "")
	verbose := flag.Bool("v", false, "")
	smtlog := flag.String("smtlog", "", "")
	noReplay := flag.Bool("noreplay", false, "skip native replay")
	replay := flag.String("replay", "", "replay a violation file")
	flag.Parse()
	if d := os.Getenv("VERIF_DIR"); d != "" {
		verifDir = d
	}
	if d := os.Getenv("VERIF_REPO"); d != "" {
		repoDir = d
	}
	if t := os.Getenv("VERIF_TIER"); t != "" && *tier == "" {
		*tier = t
	}
	if *replay != "" {
		os.Exit(doReplayFile(*replay))
	}
	t0 := time.Now()
	if os.Getenv("GOSYM_FORKS") != "" {
		forkStats = map[string]int{}
	}
	props := map[string]*PropCfg{}
	mustJSON(filepath.Join(verifDir, "props.json"), &props)
	var known []KnownFinding
	mustJSON(filepath.Join(verifDir, "known_findings.json"), &known)
	pc := props[*prop]
	if pc == nil {
		fmt.Println("unknown property", *prop)
		os.Exit(2)
	}
	var hs []HarnessCfg
	for _, h := range pc.Harnesses {
		if *only != "" && h.Name != *only {
			continue
		}
		if h.Tier == "thorough" && *tier != "thorough" {
			continue
		}
		h.Params = h.Quick
		if *tier == "thorough" && h.Thorough != nil {
			h.Params = map[string]int{}
			for k, v := range h.Quick {
				h.Params[k] = v
			}
			for k, v := range h.Thorough {
				h.Params[k] = v
			}
		}
		if h.Params == nil {
			h.Params = map[string]int{}
		}
		hs = append(hs, h)
	}
	if len(hs) == 0 {
		fmt.Println("no harness selected")
		os.Exit(2)
	}
	prog, pkgs, loadT, err := loadProgram(hs)
	if err != nil {
		fmt.Println("INCONCLUSIVE: cannot load /repo with harness overlay:", err)
		writeEvidenceFail(*prop, *tier, time.Since(t0), err.Error())
		os.Exit(2)
	}
	fmt.Printf("[%s %s] loaded + SSA-built %d packages in %v\n", *prop, *tier, len(prog.AllPackages()), loadT.Round(time.Millisecond))

	var kf []KnownFinding
	for _, k := range known {
		if k.Property == *prop {
			kf = append(kf, k)
		}
	}
	dumpDir := ""
	if *tier == "thorough" {
		dumpDir = filepath.Join(os.TempDir(), fmt.Sprintf("gosym-verdict-%s-%d", *prop, os.Getpid()))
		os.MkdirAll(dumpDir, 0755)
		defer os.RemoveAll(dumpDir)
	}
	qTimeout := 20000
	if *tier == "thorough" {
		qTimeout = 120000
	}
	var results []*Result
	exit := 0
	for _, h := range hs {
		hc := h
		sp := pkgs[hc.Pkg]
		if sp == nil {
			fmt.Printf("INCONCLUSIVE: package %q not loaded\n", hc.Pkg)
			exit = 2
			continue
		}
		fn := sp.Func(hc.Func)
		if fn == nil {
			fmt.Printf("INCONCLUSIVE: harness out of date: no function %s in %s\n", hc.Func, hc.Pkg)
			exit = 2
			continue
		}
		res := runHarness(prog, fn, &hc, kf, *workers, *z3bin, qTimeout, dumpDir, *verbose, *smtlog)
		results = append(results, res)
		fmt.Printf("  %-28s paths=%d nontrivial=%d obligations=%d discharged=%d queries=%d solver=%v reach=%d viol=%d known=%d incon=%d\n",
			hc.Name, res.Paths, res.Nontrivial, res.Oblig, res.Disch, res.Queries, res.SolverTime.Round(time.Millisecond), len(res.Reach), len(res.Viol), len(res.KnownHit), len(res.Incon))
		if *verbose {
			fmt.Printf("    reached: %s\n", strings.Join(sortedKeys(res.Reach), ", "))
		}
		// vacuity guard: the witnesses a harness is registered with must still be reachable, otherwise
		// "no violation" would only mean that the checked point is never arrived at
		if len(res.Viol) == 0 {
			for _, l := range hc.MustReach {
				if _, ok := res.Reach[l]; !ok {
					fmt.Printf("INCONCLUSIVE: %s: vacuous - reachability witness %q was not reached on the current tree\n", hc.Name, l)
					res.Incon["vacuous: witness "+l+" not reached"]++
					exit = 2
				}
			}
		}
	}
	// cross-solver check of verdict queries (thorough)
	cross := map[string]int{}
	if *tier == "thorough" {
		cross = crossCheck(results)
		if cross["disagree"] > 0 {
			fmt.Printf("INCONCLUSIVE: %d verdict queries decided differently by another solver\n", cross["disagree"])
			exit = 2
		}
	}
	nViol := 0
	for _, res := range results {
		for _, id := range sortedKeys(res.KnownHit) {
			k := findKnown(kf, id)
			fmt.Printf("KNOWN-FINDING: property=%s %s [%s/%s] %s\n", *prop, id, res.Harness, res.KnownHit[id].Label, k.What)
		}
		for _, l := range sortedKeys(res.Viol) {
			v := res.Viol[l]
			path := filepath.Join(outDir(), "replays", *prop, sanitize(res.Harness+"_"+l)+".json")
			os.MkdirAll(filepath.Dir(path), 0755)
			hc := findHarness(hs, res.Harness)
			writeJSON(path, map[string]interface{}{"property": *prop, "harness": res.Harness, "pkg": hc.Pkg, "func": hc.Func, "label": l, "model": v.Model, "order": v.Order, "path": v.Path, "params": hc.Params, "native": hc.Native})
			status := "engine-replayed"
			if hc.Native && !*noReplay {
				ok, out := nativeReplay(hc, v, path)
				if ok {
					status = "reproduced natively"
				} else {
					status = "NOT reproduced natively"
					fmt.Printf("SPURIOUS? property=%s harness=%s label=%q: native replay did not reproduce (%s)\n", *prop, res.Harness, l, trunc(out, 300))
					exit = 2
					continue
				}
			}
			nViol++
			fmt.Printf("VIOLATION property=%s replay=%s  # %s %q model=%s (%s)\n", *prop, path, res.Harness, l, trunc(modelStr(v), 300), status)
		}
		for _, i := range sortedKeys(res.Incon) {
			fmt.Printf("INCONCLUSIVE: %s: %s (x%d)\n", res.Harness, i, res.Incon[i])
			if exit == 0 {
				exit = 2
			}
		}
		for _, e := range res.SolverErr {
			fmt.Printf("INCONCLUSIVE: %s: solver error %s\n", res.Harness, trunc(e, 200))
			if exit == 0 {
				exit = 2
			}
		}
	}
	if nViol > 0 {
		exit = 1
	}
	if *only == "" {
		writeEvidence(*prop, *tier, pc, hs, results, prog, time.Since(t0), nViol, cross, exit)
	}
	for _, k := range sortedKeys(forkStats) {
		fmt.Fprintf(os.Stderr, "FORK %6d %s\n", forkStats[k], k)
	}
	fmt.Printf("[%s %s] done in %v exit=%d\n", *prop, *tier, time.Since(t0).Round(time.Millisecond), exit)
	os.Exit(exit)
}

func findKnown(kf []KnownFinding, id string) KnownFinding {
	for _, k := range kf {
		if k.ID == id {
			return k
		}
	}
	return KnownFinding{}
}
func findHarness(hs []HarnessCfg, name string) HarnessCfg {
	for _, h := range hs {
		if h.Name == name {
			return h
		}
	}
	return HarnessCfg{}
}

func modelStr(v *Violation) string {
	var parts []string
	seen := map[string]bool{}
	for _, k := range v.Order {
		if seen[k] {
			continue
		}
		seen[k] = true
		parts = append(parts, k+"="+v.Model[k])
	}
	return strings.Join(parts, " ")
}

func sanitize(s string) string {
	var sb strings.Builder
	for _, c := range s {
		if (c >= 'a' && c <= 'z') || (c >= 'A' && c <= 'Z') || (c >= '0' && c <= '9') || c == '_' || c == '-' {
			sb.WriteRune(c)
		} else {
			sb.WriteByte('_')
		}
	}
	r := sb.String()
	if len(r) > 80 {
		r = r[:80]
	}
	return r
}

func mustJSON(path string, v interface{}) {
	b, err := os.ReadFile(path)
	if err != nil {
		fmt.Println("cannot read", path, err)
		os.Exit(2)
	}
	if err := json.Unmarshal(b, v); err != nil {
		fmt.Println("cannot parse", path, err)
		os.Exit(2)
	}
}

func writeJSON(path string, v interface{}) {
	b, _ := json.MarshalIndent(v, "", " ")
	os.WriteFile(path, append(b, '\n'), 0644)
}

func harnessDir(pkg string) string {
	if pkg == "" {
		return "root"
	}
	return strings.ReplaceAll(pkg, "/", "_")
}

func buildOverlay(hs []HarnessCfg, native bool) (map[string][]byte, []string) {
	overlay := map[string][]byte{}
	add := func(dir, target string) {
		fs, _ := filepath.Glob(filepath.Join(dir, "*.go"))
		// native replay: a harness directory whose other files need engine-only models (disk model, ...) marks the
		// files that build against the native runtime with a first line "//verif:native"; then only those are taken
		marked := map[string]bool{}
		if native {
			for _, f := range fs {
				if b, _ := os.ReadFile(f); strings.HasPrefix(string(b), "//verif:native\n") {
					marked[f] = true
				}
			}
		}
		for _, f := range fs {
			if len(marked) > 0 && !marked[f] {
				continue
			}
			b, _ := os.ReadFile(f)
			overlay[filepath.Join(target, "zz_verif_"+filepath.Base(f))] = b
		}
	}
	rt := filepath.Join(verifDir, "rt", "verifrt")
	if native {
		rt = filepath.Join(verifDir, "rt", "native")
	}
	add(rt, filepath.Join(repoDir, "zz_verif", "verifrt"))
	seen := map[string]bool{}
	var pats []string
	for _, h := range hs {
		if seen[h.Pkg] {
			continue
		}
		seen[h.Pkg] = true
		pats = append(pats, "./"+h.Pkg)
	}
	// all harness directories are overlaid (harnesses of one package may use exported models of another)
	dirs, _ := os.ReadDir(filepath.Join(verifDir, "harness"))
	for _, d := range dirs {
		if !d.IsDir() {
			continue
		}
		pkg := strings.ReplaceAll(d.Name(), "_", "/")
		if d.Name() == "root" {
			pkg = ""
		}
		if native && !seen[pkg] {
			continue
		}
		add(filepath.Join(verifDir, "harness", d.Name()), filepath.Join(repoDir, pkg))
	}
	return overlay, pats
}

func loadProgram(hs []HarnessCfg) (*ssa.Program, map[string]*ssa.Package, time.Duration, error) {
	t0 := time.Now()
	overlay, pats := buildOverlay(hs, false)
	var pkgs []*packages.Package
	var errs []string
	// A harness file that no longer compiles against the current tree (a signature it uses was changed) is
	// dropped and the load repeated, so that the harnesses living in other files still run; the harnesses
	// of a dropped file are then reported as out of date (INCONCLUSIVE), never silently skipped.
	for round := 0; round < 4; round++ {
		cfg := &packages.Config{Mode: packages.LoadAllSyntax, Dir: repoDir, Overlay: overlay,
			Env: append(os.Environ(), "GOFLAGS=-mod=mod", "GOPROXY=off", "GOSUMDB=off", "GOTOOLCHAIN=local", "GOWORK=off")}
		var err error
		pkgs, err = packages.Load(cfg, pats...)
		if err != nil {
			return nil, nil, 0, err
		}
		errs = nil
		bad := map[string]bool{}
		onlyHarness := true
		packages.Visit(pkgs, nil, func(p *packages.Package) {
			for _, e := range p.Errors {
				errs = append(errs, e.Error())
				file := e.Pos
				if i := strings.Index(file, ":"); i >= 0 {
					file = file[:i]
				}
				if _, ok := overlay[file]; ok && strings.HasPrefix(filepath.Base(file), "zz_verif_h_") {
					bad[file] = true
				} else {
					onlyHarness = false
				}
			}
		})
		if len(errs) == 0 || !onlyHarness || len(bad) == 0 {
			break
		}
		for f := range bad {
			fmt.Printf("NOTE: harness file %s does not compile against the current tree and is left out: %s\n", strings.TrimPrefix(filepath.Base(f), "zz_verif_"), trunc(firstErrIn(errs, f), 200))
			delete(overlay, f)
		}
	}
	if len(errs) > 0 {
		if len(errs) > 8 {
			errs = errs[:8]
		}
		return nil, nil, 0, fmt.Errorf("%s", strings.Join(errs, "; "))
	}
	prog, spkgs := ssautil.AllPackages(pkgs, ssa.InstantiateGenerics)
	prog.Build()
	out := map[string]*ssa.Package{}
	for i, p := range pkgs {
		rel := strings.TrimPrefix(strings.TrimPrefix(p.PkgPath, modPath), "/")
		out[rel] = spkgs[i]
	}
	return prog, out, time.Since(t0), nil
}

func runHarness(prog *ssa.Program, fn *ssa.Function, hc *HarnessCfg, known []KnownFinding, workers int, z3bin string, qTimeout int, dumpDir string, verbose bool, smtlog string) *Result {
	res := NewResult(hc.Name)
	maxPaths := hc.MaxPaths
	if maxPaths == 0 {
		maxPaths = 200000
	}
	to := hc.TimeoutS
	if to == 0 {
		to = 600
	}
	q := NewWorkQ(maxPaths, time.Now().Add(time.Duration(to)*time.Second))
	if os.Getenv("GOSYM_EXHAUSTIVE") == "" {
		q.stop = func() bool {
			res.mu.Lock()
			defer res.mu.Unlock()
			return len(res.Viol) > 0
		}
	}
	var wg sync.WaitGroup
	var kf []KnownFinding
	for _, k := range known {
		if k.Harness == "" || k.Harness == hc.Name {
			kf = append(kf, k)
		}
	}
	for w := 0; w < workers; w++ {
		wg.Add(1)
		go func(w int) {
			defer wg.Done()
			var z *Solver
			for {
				prefix, ok := q.Pop()
				if !ok {
					break
				}
				if z == nil {
					bin := z3bin
					if hc.Solver != "" && os.Getenv("GOSYM_FORCE_SOLVER") == "" {
						bin = hc.Solver
					}
					z = NewSolver(bin, qTimeout)
					if smtlog != "" && w == 0 {
						f, _ := os.Create(smtlog)
						z.log = f
					}
				}
				ex := &Explorer{z: z, q: q, res: res, known: kf, dumpDir: dumpDir, verbose: verbose}
				cfgCopy := *hc
				var m *Machine
				func() {
					defer func() {
						if r := recover(); r != nil {
							if s, ok := r.(string); ok && strings.HasPrefix(s, "solver died") {
								ex.incon(s)
								z = nil
								return
							}
							res.mu.Lock()
							res.Incon[fmt.Sprintf("engine panic: %v", r)]++
							res.mu.Unlock()
							if verbose {
								buf := make([]byte, 8192)
								n := runtime.Stack(buf, false)
								fmt.Fprintf(os.Stderr, "engine panic: %v\n%s\n", r, buf[:n])
							}
							// solver state may be inconsistent: restart it
							if z != nil {
								z.Close()
								z = nil
							}
						}
					}()
					ex.RunPath(prefix, func() {
						m = newMachine(prog, ex, &cfgCopy)
						ex.site = m.where
						m.callFunction(fn, nil, nil)
						if n := len(m.heldLocks()); n > 0 && !m.cfg.noLockLeakCheck() {
							ex.Fail("lock-leak: " + strings.Join(m.heldLocks(), ",") + " still held at return")
						}
					})
				}()
				if m != nil {
					m.killCo()
					res.mu.Lock()
					for f := range m.funcsRun {
						if _, ok := res.Funcs[f.String()]; !ok {
							res.Funcs[f.String()] = m.instrCount(f)
						}
					}
					for k, v := range m.stubsRun {
						res.Stubs[k] += v
					}
					for k, v := range m.ovrUsed {
						res.Overrides[k] += v
					}
					res.Steps += m.steps
					res.mu.Unlock()
				}
				q.Done()
			}
			if z != nil {
				res.mu.Lock()
				res.Queries += z.Queries
				res.SolverTime += z.Time
				res.SolverErr = append(res.SolverErr, z.Errors...)
				res.mu.Unlock()
				z.Close()
			}
		}(w)
	}
	wg.Wait()
	if len(res.Traces) > 0 {
		for _, c := range findRaces(res, z3bin) {
			l := c.label()
			detail := fmt.Sprintf("%s: %s [locks %s] at %s  ||  %s [locks %s] at %s", c.Cell, rw(c.A.Write), lockKey(c.A), c.WhereA, rw(c.B.Write), lockKey(c.B), c.WhereB)
			res.Races = append(res.Races, detail)
			v := &Violation{Label: l, Harness: hc.Name, Detail: detail, Model: map[string]string{"schedule": detail}, Order: []string{"schedule"}}
			matched := false
			for _, k := range kf {
				if k.Status == "fixed" {
					continue
				}
				if k.Label == l || (strings.HasSuffix(k.Label, "*") && strings.HasPrefix(l, strings.TrimSuffix(k.Label, "*"))) {
					if _, ok := res.KnownHit[k.ID]; !ok {
						v.Known = k.ID
						res.KnownHit[k.ID] = v
					}
					matched = true
				}
			}
			if !matched {
				if _, ok := res.Viol[l]; !ok {
					res.Viol[l] = v
				}
			}
		}
	}
	if q.over {
		res.Incon[fmt.Sprintf("path/time budget exhausted (%d paths explored, %d pending)", res.Paths, len(q.items))]++
	}
	return res
}

func rw(w bool) string {
	if w {
		return "write"
	}
	return "read"
}

func (c *HarnessCfg) noLockLeakCheck() bool { return c.Params["allow_lock_leak"] == 1 }

func (m *Machine) heldLocks() []string {
	var out []string
	for _, ls := range m.locks {
		if ls.writer || ls.readers > 0 {
			out = append(out, ls.name)
		}
	}
	sort.Strings(out)
	return out
}

func newMachine(prog *ssa.Program, ex *Explorer, cfg *HarnessCfg) *Machine {
	return &Machine{prog: prog, ex: ex, cfg: cfg, globals: map[*ssa.Global]*Cell{}, maxDepth: 200, maxSteps: 20000000,
		funcsRun: map[*ssa.Function]bool{}, stubsRun: map[string]int{}, overrides: map[string]Func{}, ovrUsed: map[string]int{},
		locks: map[*Cell]*lockState{}, sideStr: map[*Cell]Str{}, initDone: map[*ssa.Package]bool{}, modPrefix: modPath, notes: map[string]Val{}}
}

func firstErrIn(errs []string, file string) string {
	for _, e := range errs {
		if strings.Contains(e, file) {
			return e
		}
	}
	return ""
}
