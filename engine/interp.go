package main

import (
	"fmt"
	"go/constant"
	"go/token"
	"go/types"
	"strings"

	"golang.org/x/tools/go/ssa"
)

type goPanic struct {
	val Val
	msg string
}
type crashSignal struct{}

type Machine struct {
	prog      *ssa.Program
	ex        *Explorer
	cfg       *HarnessCfg
	globals   map[*ssa.Global]*Cell
	depth     int
	maxDepth  int
	steps     int64
	maxSteps  int64
	stepsViol bool
	epoch     int
	funcsRun  map[*ssa.Function]bool
	stubsRun  map[string]int
	timeYear  map[string]Int // calendar year of time values produced by the time.Parse model (key: term of the ext field)
	overrides map[string]Func
	ovrUsed   map[string]int
	allocBudget *Int
	maxAlloc    *Int
	allowPanics bool
	curPanic  *goPanic
	locks     map[*Cell]*lockState
	lockOrder []string
	heldOrder []*Cell
	spawned   []func()
	sideStr   map[*Cell]Str // strings.Builder contents
	nowLast   *Int
	errCtr    int
	trace     *OpTrace
	initDone  map[*ssa.Package]bool
	modPrefix string
	callStack []string
	uuidCtr   int
	notes     map[string]Val
	pendingAx []string
	frames    []*frame
	// preemption at lock acquisitions (C13 interleavings): before thread A's k-th acquisition attempt
	// another operation B runs to completion
	preemptAt  int
	preemptFn  *Func
	lockAcq    int
	preemptRan bool
	spawnAsThread bool
	cur        int        // running thread: 0 = the operation under test, 1 = the interleaved one
	co         *coroutine // the interleaved operation
	keepSymBounds bool // harness asked to keep symbolic slice bounds symbolic (sizes-only models)
}

var opaqueErrType = types.NewNamed(types.NewTypeName(token.NoPos, nil, "opaqueError", nil), types.Typ[types.Int], nil)

func (m *Machine) incon(msg string) {
	m.ex.incon(msg)
	panic(pathEnd{"inconclusive: " + msg})
}

func (m *Machine) where() string {
	if len(m.callStack) == 0 {
		return ""
	}
	n := len(m.callStack)
	lo := n - 3
	if lo < 0 {
		lo = 0
	}
	return strings.Join(m.callStack[lo:], ">")
}

// rtPanic: a Go run-time panic (nil deref, index out of range, ...).
func (m *Machine) rtPanic(kind string) {
	if m.allowPanics {
		panic(goPanic{msg: kind, val: m.newErr("runtime:" + kind)})
	}
	m.ex.Fail("panic:" + kind + " in " + m.curFn())
}

func (m *Machine) curFn() string {
	if len(m.callStack) == 0 {
		return "?"
	}
	return m.callStack[len(m.callStack)-1]
}

// rtOblige: run-time check that must hold, else Go would panic.
func (m *Machine) rtOblige(c Bool, kind string) {
	if c.IsC() {
		if c.C {
			return
		}
		m.rtPanic(kind)
	}
	if m.allowPanics {
		if m.ex.Branch(c) {
			return
		}
		panic(goPanic{msg: kind, val: m.newErr("runtime:" + kind)})
	}
	m.ex.Oblige(c, "panic:"+kind+" in "+m.curFn())
}

func (m *Machine) constVal(c *ssa.Const) Val {
	t := c.Type()
	if c.Value == nil {
		return m.zero(t)
	}
	if w, signed, ok := intWidth(t); ok {
		if signed {
			v, _ := constant.Int64Val(constant.ToInt(c.Value))
			return CI(w, uint64(v))
		}
		v, _ := constant.Uint64Val(constant.ToInt(c.Value))
		return CI(w, v)
	}
	switch c.Value.Kind() {
	case constant.Bool:
		return CB(constant.BoolVal(c.Value))
	case constant.String:
		return Str{C: constant.StringVal(c.Value)}
	case constant.Float, constant.Int, constant.Complex:
		return Opaque{Name: "float"}
	}
	panic("const " + c.String())
}

type frame struct {
	fn     *ssa.Function
	env    map[ssa.Value]Val
	free   []Val
	defers []func()
}

func (m *Machine) get(fr *frame, v ssa.Value) Val {
	switch x := v.(type) {
	case *ssa.Const:
		return m.constVal(x)
	case *ssa.Global:
		return Ptr{C: m.global(x)}
	case *ssa.Function:
		return Func{Fn: x}
	case *ssa.FreeVar:
		for i, fv := range fr.fn.FreeVars {
			if fv == x {
				return fr.free[i]
			}
		}
		panic("freevar")
	case *ssa.Builtin:
		return Func{Nat: "builtin:" + x.Name()}
	}
	r, ok := fr.env[v]
	if !ok {
		panic("unbound value " + v.Name() + " in " + fr.fn.String())
	}
	return r
}

func (m *Machine) inModule(p *ssa.Package) bool {
	return p != nil && p.Pkg != nil && strings.HasPrefix(p.Pkg.Path(), m.modPrefix)
}

func (m *Machine) global(g *ssa.Global) *Cell {
	if c, ok := m.globals[g]; ok {
		return c
	}
	// packages of the module under test get their real initialisers run (once per path)
	if g.Pkg != nil && (m.inModule(g.Pkg) || initWhitelist[g.Pkg.Pkg.Path()]) && !m.initDone[g.Pkg] {
		m.runInit(g.Pkg)
		if c, ok := m.globals[g]; ok {
			return c
		}
	}
	et := g.Type().(*types.Pointer).Elem()
	var v Val
	if _, isIface := et.Underlying().(*types.Interface); isIface && !(g.Pkg != nil && m.inModule(g.Pkg)) {
		// foreign sentinel errors (io.EOF, leveldb.ErrNotFound, ...) get a unique opaque identity
		v = Iface{T: opaqueErrType, V: Ptr{C: &Cell{V: Opaque{Name: g.String()}, Name: g.String()}}}
	} else {
		v = m.zero(et)
	}
	c := &Cell{V: v, Name: g.Name()}
	if g.Object() != nil && m.underTest(g.Object()) {
		c.Name = "global." + g.Name()
		c.Track = true
	}
	m.globals[g] = c
	return c
}

// standard-library packages whose package-level tables (asciiSpace, base64 alphabets, ...) are needed by
// code that is interpreted from source: their own initialiser runs like the module's (imports' do not)
var initWhitelist = map[string]bool{"crypto/x509/pkix": true, "bytes": true, "strings": true, "encoding/pem": true, "encoding/base64": true, "encoding/hex": true}

func (m *Machine) runInit(p *ssa.Package) {
	m.initDone[p] = true
	if f := p.Func("init"); f != nil && f.Blocks != nil {
		saved := m.trace
		m.trace = nil
		m.call(f, nil, nil)
		m.trace = saved
	}
}

func (m *Machine) nilCheck(p Ptr, what string) {
	if p.C == nil && p.BA == nil {
		m.rtPanic("nil-deref")
	}
}

func (m *Machine) load(p Ptr) Val {
	m.nilCheck(p, "load")
	if p.BA != nil {
		return m.baSel(p.BA, p.Idx)
	}
	if m.trace != nil {
		m.trace.access(m, p.C, false)
	}
	return m.copyVal(p.C.V)
}

func (m *Machine) store(p Ptr, v Val) {
	m.nilCheck(p, "store")
	if p.BA != nil {
		m.baSto(p.BA, p.Idx, v.(Int))
		return
	}
	if m.trace != nil {
		m.trace.access(m, p.C, true)
	}
	// objects reachable through a named field inherit its name (stable identity across paths)
	if p.C.Name != "" && strings.Contains(p.C.Name, ".") {
		switch x := v.(type) {
		case Ptr:
			if x.C != nil && !strings.Contains(x.C.Name, ".") {
				x.C.Name = p.C.Name
			}
		case Map:
			if x.M != nil && x.M.Name == "" {
				x.M.Name = p.C.Name
				x.M.Track = p.C.Track
			}
		}
	}
	m.assignInto(p.C, v)
}

func sle(a, b Int) Bool {
	if a.IsC() && b.IsC() {
		return CB(a.Signed() <= b.Signed())
	}
	return Bool{S: "(bvsle " + a.T() + " " + b.T() + ")"}
}
func slt(a, b Int) Bool {
	if a.IsC() && b.IsC() {
		return CB(a.Signed() < b.Signed())
	}
	return Bool{S: "(bvslt " + a.T() + " " + b.T() + ")"}
}
func (m *Machine) add(a, b Int) Int { return m.intBin(token.ADD, a, b, true).(Int) }
func (m *Machine) sub(a, b Int) Int { return m.intBin(token.SUB, a, b, true).(Int) }

func (m *Machine) instrCount(fn *ssa.Function) int {
	n := 0
	for _, b := range fn.Blocks {
		n += len(b.Instrs)
	}
	return n
}

// call runs fn (stubs, overrides and models are resolved by callFunction).
func (m *Machine) call(fn *ssa.Function, args []Val, free []Val) (ret Val) {
	name := fn.String()
	if fn.Blocks == nil {
		m.incon("no body/stub for " + name)
	}
	m.funcsRun[fn] = true
	depth0, stack0 := m.depth, len(m.callStack)
	m.depth++
	if m.depth > m.maxDepth {
		tail := m.callStack
		if len(tail) > 12 {
			tail = tail[len(tail)-12:]
		}
		m.incon("unwinding: call depth exceeded in " + name + " (innermost frames: " + strings.Join(tail, " > ") + ")")
	}
	m.callStack = append(m.callStack, fn.Name())
	fr := &frame{fn: fn, env: make(map[ssa.Value]Val, 16), free: free}
	for i, p := range fn.Params {
		fr.env[p] = args[i]
	}
	nfr := len(m.frames)
	m.frames = append(m.frames, fr)
	defer func() {
		m.frames = m.frames[:nfr]
		if r := recover(); r != nil {
			gp, ok := r.(goPanic)
			if !ok {
				panic(r)
			}
			m.depth, m.callStack = depth0+1, m.callStack[:stack0+1]
			m.curPanic = &gp
			m.runDefers(fr)
			if m.curPanic != nil {
				p := *m.curPanic
				m.depth, m.callStack = depth0, m.callStack[:stack0]
				panic(p)
			}
			if fn.Recover != nil {
				ret = m.run(fr, fn.Recover)
			} else {
				ret = m.zeroResults(fn)
			}
		}
		m.depth, m.callStack = depth0, m.callStack[:stack0]
	}()
	return m.run(fr, fn.Blocks[0])
}

func (m *Machine) zeroResults(fn *ssa.Function) Val {
	res := fn.Signature.Results()
	switch res.Len() {
	case 0:
		return nil
	case 1:
		return m.zero(res.At(0).Type())
	}
	return m.zero(res)
}

func (m *Machine) runDefers(fr *frame) {
	for len(fr.defers) > 0 {
		d := fr.defers[len(fr.defers)-1]
		fr.defers = fr.defers[:len(fr.defers)-1]
		d()
	}
}

func (m *Machine) run(fr *frame, block *ssa.BasicBlock) Val {
	fn := fr.fn
	var prev *ssa.BasicBlock
	for {
		var next *ssa.BasicBlock
		for _, ins := range block.Instrs {
			m.steps++
			if m.steps > m.maxSteps {
				if m.stepsViol {
					m.ex.Fail("nontermination: step budget exceeded in " + fn.Name())
				}
				m.incon("unwinding: step budget exceeded")
			}
			switch x := ins.(type) {
			case *ssa.DebugRef:
			case *ssa.Phi:
				for i, p := range block.Preds {
					if p == prev {
						fr.env[x] = m.get(fr, x.Edges[i])
						break
					}
				}
			case *ssa.Alloc:
				c := m.newCell(m.zero(x.Type().(*types.Pointer).Elem()))
				c.Name = x.Comment
				fr.env[x] = Ptr{C: c}
			case *ssa.FieldAddr:
				p := m.get(fr, x.X).(Ptr)
				m.nilCheck(p, "fieldaddr")
				st, ok := p.C.V.(Struct)
				if !ok {
					m.incon(fmt.Sprintf("fieldaddr on %T in %s", p.C.V, fn))
				}
				fr.env[x] = Ptr{C: st.F[x.Field]}
			case *ssa.Field:
				st, ok := m.get(fr, x.X).(Struct)
				if !ok {
					m.incon(fmt.Sprintf("field on %T in %s", m.get(fr, x.X), fn))
				}
				fr.env[x] = m.copyVal(st.F[x.Field].V)
			case *ssa.IndexAddr:
				fr.env[x] = m.indexAddr(m.get(fr, x.X), m.get(fr, x.Index).(Int))
			case *ssa.Index:
				fr.env[x] = m.index(m.get(fr, x.X), m.get(fr, x.Index).(Int))
			case *ssa.Lookup:
				fr.env[x] = m.lookup(m.get(fr, x.X), m.get(fr, x.Index), x.CommaOk, x.Type())
			case *ssa.MapUpdate:
				m.mapUpdate(m.get(fr, x.Map), m.get(fr, x.Key), m.get(fr, x.Value))
			case *ssa.UnOp:
				fr.env[x] = m.unop(x, m.get(fr, x.X))
			case *ssa.BinOp:
				fr.env[x] = m.binop(x.Op, m.get(fr, x.X), m.get(fr, x.Y), x.X.Type())
			case *ssa.Store:
				m.store(m.get(fr, x.Addr).(Ptr), m.get(fr, x.Val))
			case *ssa.Convert:
				fr.env[x] = m.convert(m.get(fr, x.X), x.X.Type(), x.Type())
			case *ssa.ChangeType:
				fr.env[x] = m.get(fr, x.X)
			case *ssa.ChangeInterface:
				fr.env[x] = m.get(fr, x.X)
			case *ssa.SliceToArrayPointer:
				m.incon("SliceToArrayPointer")
			case *ssa.MakeInterface:
				fr.env[x] = Iface{T: x.X.Type(), V: m.get(fr, x.X)}
			case *ssa.MakeClosure:
				f := Func{Fn: x.Fn.(*ssa.Function)}
				for _, b := range x.Bindings {
					f.Env = append(f.Env, m.get(fr, b))
				}
				fr.env[x] = f
			case *ssa.MakeMap:
				fr.env[x] = Map{M: &MapObj{Epoch: m.epoch}}
			case *ssa.MakeChan:
				fr.env[x] = Chan{C: &ChanObj{}}
			case *ssa.TypeAssert:
				fr.env[x] = m.typeAssert(x, m.get(fr, x.X))
			case *ssa.Extract:
				fr.env[x] = m.get(fr, x.Tuple).(Tuple)[x.Index]
			case *ssa.MakeSlice:
				fr.env[x] = m.makeSlice(x.Type(), m.get(fr, x.Len).(Int), m.get(fr, x.Cap).(Int))
			case *ssa.Slice:
				fr.env[x] = m.sliceOp(fr, x)
			case *ssa.Range:
				fr.env[x] = m.rangeOp(m.get(fr, x.X))
			case *ssa.Next:
				fr.env[x] = m.nextOp(x, m.get(fr, x.Iter).(*Iter))
			case *ssa.Call:
				fr.env[x] = m.doCall(fr, x.Common())
			case *ssa.Go:
				cc := x.Common()
				callee, args := m.resolve(fr, cc)
				body := func() { m.invoke(callee, args, cc) }
				if m.spawnAsThread && m.cur == 0 && m.co == nil {
					// the goroutine starts running at once as thread 1 (until it returns, waits for a lock or
					// pauses in a long environment call); the spawning operation continues meanwhile
					m.startCo(body)
				} else {
					m.spawned = append(m.spawned, body)
				}
			case *ssa.Defer:
				cc := x.Common()
				callee, args := m.resolve(fr, cc)
				fr.defers = append(fr.defers, func() { m.invoke(callee, args, cc) })
			case *ssa.RunDefers:
				m.runDefers(fr)
			case *ssa.If:
				c := m.get(fr, x.Cond).(Bool)
				if m.ex.Branch(c) {
					next = block.Succs[0]
				} else {
					next = block.Succs[1]
				}
			case *ssa.Jump:
				next = block.Succs[0]
			case *ssa.Return:
				switch len(x.Results) {
				case 0:
					return nil
				case 1:
					return m.get(fr, x.Results[0])
				}
				t := make(Tuple, len(x.Results))
				for i, r := range x.Results {
					t[i] = m.get(fr, r)
				}
				return t
			case *ssa.Panic:
				v := m.get(fr, x.X)
				if m.allowPanics {
					panic(goPanic{val: v, msg: "explicit"})
				}
				m.ex.Fail("panic:explicit in " + fn.Name())
			case *ssa.Send:
				m.incon("channel send")
			case *ssa.Select:
				m.incon("select")
			default:
				m.incon(fmt.Sprintf("unsupported instruction %T in %s", ins, fn))
			}
		}
		if next == nil {
			panic("fell off block in " + fn.String())
		}
		prev, block = block, next
	}
}

func (m *Machine) typeAssert(x *ssa.TypeAssert, v Val) Val {
	iv, isI := v.(Iface)
	if !isI {
		m.incon(fmt.Sprintf("typeassert on %T", v))
	}
	ok := false
	_, toIface := x.AssertedType.Underlying().(*types.Interface)
	if iv.T != nil {
		if toIface {
			if iv.T == opaqueErrType {
				ok = isErrorIface(x.AssertedType)
			} else {
				ok = types.Implements(iv.T, x.AssertedType.Underlying().(*types.Interface))
			}
		} else {
			ok = types.Identical(iv.T, x.AssertedType)
		}
	}
	var res Val
	if toIface {
		if ok {
			res = iv
		} else {
			res = Iface{}
		}
	} else if ok {
		res = iv.V
	} else {
		res = m.zero(x.AssertedType)
	}
	if x.CommaOk {
		return Tuple{res, CB(ok)}
	}
	if !ok {
		m.rtPanic("type-assertion")
	}
	return res
}

func isErrorIface(t types.Type) bool {
	it, ok := t.Underlying().(*types.Interface)
	if !ok {
		return false
	}
	if it.NumMethods() == 0 {
		return true
	}
	return it.NumMethods() == 1 && it.Method(0).Name() == "Error"
}

func (m *Machine) resolve(fr *frame, cc *ssa.CallCommon) (interface{}, []Val) {
	var args []Val
	if cc.IsInvoke() {
		recv, ok := m.get(fr, cc.Value).(Iface)
		if !ok {
			m.incon("invoke on non-interface")
		}
		if recv.T == nil {
			m.rtPanic("nil-interface-call " + cc.Method.Name())
		}
		if recv.T == opaqueErrType {
			for _, a := range cc.Args {
				args = append(args, m.get(fr, a))
			}
			return Func{Nat: "opaqueError." + cc.Method.Name()}, append([]Val{recv.V}, args...)
		}
		sel := m.prog.MethodSets.MethodSet(recv.T).Lookup(cc.Method.Pkg(), cc.Method.Name())
		if sel == nil {
			m.incon("no method " + cc.Method.Name() + " on " + recv.T.String())
		}
		f := m.prog.MethodValue(sel)
		args = append(args, recv.V)
		for _, a := range cc.Args {
			args = append(args, m.get(fr, a))
		}
		return f, args
	}
	for _, a := range cc.Args {
		args = append(args, m.get(fr, a))
	}
	switch v := cc.Value.(type) {
	case *ssa.Builtin:
		return v, args
	case *ssa.Function:
		return v, args
	}
	f, ok := m.get(fr, cc.Value).(Func)
	if !ok {
		m.incon("call of non-func value")
	}
	return f, args
}

func (m *Machine) invoke(callee interface{}, args []Val, cc *ssa.CallCommon) Val {
	switch f := callee.(type) {
	case *ssa.Builtin:
		return m.builtin(f.Name(), args, cc)
	case *ssa.Function:
		return m.callFunction(f, args, nil)
	case Func:
		if f.Nat != "" {
			if strings.HasPrefix(f.Nat, "builtin:") {
				return m.builtin(strings.TrimPrefix(f.Nat, "builtin:"), args, cc)
			}
			if st, ok := stubs[f.Nat]; ok {
				return st(m, args)
			}
			m.incon("native func value " + f.Nat)
		}
		if f.Fn == nil {
			m.rtPanic("nil-func-call")
		}
		return m.callFunction(f.Fn, args, f.Env)
	}
	panic("invoke")
}

// callFunction dispatches: harness override > native stub > Go model > real body.
func (m *Machine) callFunction(fn *ssa.Function, args []Val, free []Val) Val {
	name := fn.String()
	if o := fn.Origin(); o != nil {
		name = o.String()
	}
	if ov, ok := m.overrides[name]; ok {
		m.ovrUsed[name]++
		return m.callFunction(ov.Fn, args, ov.Env)
	}
	if st, ok := stubs[name]; ok {
		m.stubsRun[name]++
		return st(m, args)
	}
	if isNoop(name) {
		m.stubsRun["noop:"+pkgOf(name)]++
		return m.zeroResults(fn)
	}
	if fn.Name() == "init" && fn.Pkg != nil && fn.Signature.Recv() == nil {
		if !m.inModule(fn.Pkg) {
			return nil
		}
		if m.initDone[fn.Pkg] {
			return nil
		}
		m.initDone[fn.Pkg] = true
	}
	return m.call(fn, args, free)
}

func pkgOf(name string) string {
	name = strings.TrimLeft(name, "(*")
	if i := strings.LastIndex(name, "/"); i >= 0 {
		rest := name[i+1:]
		if j := strings.IndexAny(rest, ".)"); j >= 0 {
			return name[:i+1+j]
		}
	}
	if j := strings.IndexAny(name, ".)"); j >= 0 {
		return name[:j]
	}
	return name
}

func isNoop(name string) bool {
	for _, p := range []string{"(*go.uber.org/zap.Logger).", "go.uber.org/zap.", "log.Printf", "log.Println", "runtime/debug.Stack", "(*log.Logger)."} {
		if strings.HasPrefix(name, p) {
			return true
		}
	}
	return false
}

func (m *Machine) doCall(fr *frame, cc *ssa.CallCommon) Val {
	callee, args := m.resolve(fr, cc)
	return m.invoke(callee, args, cc)
}

func (m *Machine) unop(x *ssa.UnOp, v Val) Val {
	switch x.Op {
	case token.MUL:
		return m.load(v.(Ptr))
	case token.NOT:
		return Not(v.(Bool))
	case token.SUB:
		if i, ok := v.(Int); ok {
			return m.sub(CI(i.W, 0), i)
		}
		return Opaque{Name: "float"}
	case token.XOR:
		i := v.(Int)
		if i.IsC() {
			return CI(i.W, ^i.C)
		}
		return Int{W: i.W, S: "(bvnot " + i.S + ")"}
	case token.ARROW:
		m.incon("channel receive")
	}
	m.incon("unop " + x.Op.String())
	return nil
}
