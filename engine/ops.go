package main

import (
	"fmt"
	"go/token"
	"go/types"
	"math/big"
	"regexp"
	"strings"
)

func bvbin(op string, a, b Int) Int { return Int{W: a.W, S: "(" + op + " " + a.T() + " " + b.T() + ")"} }

func (m *Machine) intBin(op token.Token, a, b Int, signed bool) Val {
	if a.W != b.W && op != token.SHL && op != token.SHR {
		panic(fmt.Sprintf("width mismatch %d %d for %s", a.W, b.W, op))
	}
	if a.IsC() && b.IsC() {
		w := a.W
		switch op {
		case token.ADD:
			return CI(w, a.C+b.C)
		case token.SUB:
			return CI(w, a.C-b.C)
		case token.MUL:
			return CI(w, a.C*b.C)
		case token.AND:
			return CI(w, a.C&b.C)
		case token.OR:
			return CI(w, a.C|b.C)
		case token.XOR:
			return CI(w, a.C^b.C)
		case token.AND_NOT:
			return CI(w, a.C&^b.C)
		case token.SHL:
			if b.C >= uint64(w) {
				return CI(w, 0)
			}
			return CI(w, a.C<<b.C)
		case token.SHR:
			if signed {
				s := a.Signed()
				sh := b.C
				if sh >= 63 {
					sh = 63
				}
				return CI(w, uint64(s>>sh))
			}
			if b.C >= uint64(w) {
				return CI(w, 0)
			}
			return CI(w, a.C>>b.C)
		case token.QUO, token.REM:
			if b.C == 0 {
				m.rtPanic("integer-divide-by-zero")
			}
			if signed {
				if op == token.QUO {
					return CI(w, uint64(a.Signed()/b.Signed()))
				}
				return CI(w, uint64(a.Signed()%b.Signed()))
			}
			if op == token.QUO {
				return CI(w, a.C/b.C)
			}
			return CI(w, a.C%b.C)
		case token.EQL:
			return CB(a.C == b.C)
		case token.NEQ:
			return CB(a.C != b.C)
		case token.LSS:
			if signed {
				return CB(a.Signed() < b.Signed())
			}
			return CB(a.C < b.C)
		case token.LEQ:
			if signed {
				return CB(a.Signed() <= b.Signed())
			}
			return CB(a.C <= b.C)
		case token.GTR:
			if signed {
				return CB(a.Signed() > b.Signed())
			}
			return CB(a.C > b.C)
		case token.GEQ:
			if signed {
				return CB(a.Signed() >= b.Signed())
			}
			return CB(a.C >= b.C)
		}
		panic("intBin concrete op " + op.String())
	}
	if (a.N != "" || b.N != "") && (a.N != "" || a.IsC()) && (b.N != "" || b.IsC()) {
		nt := func(x Int) string {
			if x.N != "" {
				return x.N
			}
			v := x.Signed()
			if v < 0 {
				return fmt.Sprintf("(- %d)", -v)
			}
			return fmt.Sprintf("%d", v)
		}
		iop := map[token.Token]string{token.EQL: "=", token.LSS: "<", token.LEQ: "<=", token.GTR: ">", token.GEQ: ">="}
		if op == token.NEQ {
			return Bool{S: "(not (= " + nt(a) + " " + nt(b) + "))"}
		}
		if io, ok := iop[op]; ok {
			return Bool{S: "(" + io + " " + nt(a) + " " + nt(b) + ")"}
		}
		if op == token.ADD || op == token.SUB {
			o := "+"
			if op == token.SUB {
				o = "-"
			}
			n := "(" + o + " " + nt(a) + " " + nt(b) + ")"
			return Int{W: a.W, S: "((_ int2bv " + fmt.Sprint(a.W) + ") " + n + ")", N: n}
		}
	}
	if a.S != "" && a.S == b.S {
		switch op {
		case token.EQL, token.LEQ, token.GEQ:
			return CB(true)
		case token.NEQ, token.LSS, token.GTR:
			return CB(false)
		case token.SUB, token.XOR:
			return CI(a.W, 0)
		case token.AND, token.OR:
			return a
		}
	}
	// light algebraic simplification
	switch op {
	case token.ADD, token.OR, token.XOR:
		if a.IsC() && a.C == 0 {
			return b
		}
		if b.IsC() && b.C == 0 {
			return a
		}
	case token.SUB:
		if b.IsC() && b.C == 0 {
			return a
		}
	}
	cmp := func(s, u string) Val {
		o := u
		if signed {
			o = s
		}
		return Bool{S: "(" + o + " " + a.T() + " " + b.T() + ")"}
	}
	switch op {
	case token.ADD:
		return bvbin("bvadd", a, b)
	case token.SUB:
		return bvbin("bvsub", a, b)
	case token.MUL:
		return bvbin("bvmul", a, b)
	case token.AND:
		return bvbin("bvand", a, b)
	case token.OR:
		return bvbin("bvor", a, b)
	case token.XOR:
		return bvbin("bvxor", a, b)
	case token.AND_NOT:
		return Int{W: a.W, S: "(bvand " + a.T() + " (bvnot " + b.T() + "))"}
	case token.SHL, token.SHR:
		var bb Int
		if b.W > a.W {
			// shift counts >= width give 0 (or sign fill); clamp
			if b.IsC() {
				c := b.C
				if c > uint64(a.W) {
					c = uint64(a.W)
				}
				bb = CI(a.W, c)
			} else {
				cl := Int{W: b.W, S: "(ite (bvugt " + b.T() + " " + CI(b.W, uint64(a.W)).T() + ") " + CI(b.W, uint64(a.W)).T() + " " + b.T() + ")"}
				bb = m.resize(cl, a.W, false)
			}
		} else {
			bb = m.resize(b, a.W, false)
		}
		if op == token.SHL {
			return bvbin("bvshl", a, bb)
		}
		if signed {
			return bvbin("bvashr", a, bb)
		}
		return bvbin("bvlshr", a, bb)
	case token.QUO:
		m.rtOblige(Bool{S: "(not (= " + b.T() + " " + CI(b.W, 0).T() + "))"}, "integer-divide-by-zero")
		if signed {
			return bvbin("bvsdiv", a, b)
		}
		return bvbin("bvudiv", a, b)
	case token.REM:
		m.rtOblige(Bool{S: "(not (= " + b.T() + " " + CI(b.W, 0).T() + "))"}, "integer-divide-by-zero")
		if signed {
			return bvbin("bvsrem", a, b)
		}
		return bvbin("bvurem", a, b)
	case token.EQL:
		return Bool{S: "(= " + a.T() + " " + b.T() + ")"}
	case token.NEQ:
		return Bool{S: "(not (= " + a.T() + " " + b.T() + "))"}
	case token.LSS:
		return cmp("bvslt", "bvult")
	case token.LEQ:
		return cmp("bvsle", "bvule")
	case token.GTR:
		return cmp("bvsgt", "bvugt")
	case token.GEQ:
		return cmp("bvsge", "bvuge")
	}
	panic("intBin op " + op.String())
}

func (m *Machine) resize(a Int, w int, signed bool) Int {
	if a.W == w {
		return a
	}
	if a.IsC() {
		if w < a.W {
			return CI(w, a.C)
		}
		if signed {
			return CI(w, uint64(a.Signed()))
		}
		return CI(w, a.C)
	}
	if w < a.W {
		return Int{W: w, S: fmt.Sprintf("((_ extract %d 0) %s)", w-1, a.S)}
	}
	ext := "zero_extend"
	if signed {
		ext = "sign_extend"
	}
	r := Int{W: w, S: fmt.Sprintf("((_ %s %d) %s)", ext, w-a.W, a.S)}
	if a.N != "" && !signed {
		r.N = a.N
	}
	return r
}

func (m *Machine) binop(op token.Token, x, y Val, t types.Type) Val {
	switch a := x.(type) {
	case Int:
		_, signed, _ := intWidth(t)
		b, ok := y.(Int)
		if !ok {
			m.incon("binop int with non-int")
		}
		return m.intBin(op, a, b, signed)
	case Bool:
		b := y.(Bool)
		switch op {
		case token.EQL:
			if a.IsC() && b.IsC() {
				return CB(a.C == b.C)
			}
			return Bool{S: "(= " + a.T() + " " + b.T() + ")"}
		case token.NEQ:
			if a.IsC() && b.IsC() {
				return CB(a.C != b.C)
			}
			return Bool{S: "(not (= " + a.T() + " " + b.T() + "))"}
		case token.AND, token.LAND:
			return And(a, b)
		case token.OR, token.LOR:
			return Or(a, b)
		}
	case Str:
		b := y.(Str)
		switch op {
		case token.EQL:
			return m.strEq(a, b)
		case token.NEQ:
			return Not(m.strEq(a, b))
		case token.ADD:
			return m.strConcat(a, b)
		case token.LSS, token.GTR, token.LEQ, token.GEQ:
			if a.IsC() && b.IsC() {
				switch op {
				case token.LSS:
					return CB(a.C < b.C)
				case token.GTR:
					return CB(a.C > b.C)
				case token.LEQ:
					return CB(a.C <= b.C)
				default:
					return CB(a.C >= b.C)
				}
			}
			m.incon("ordered comparison of symbolic strings")
		}
	case Iface:
		b := y.(Iface)
		eq := m.ifaceEqSym(a, b)
		if op == token.EQL {
			return eq
		}
		return Not(eq)
	case Ptr:
		b := y.(Ptr)
		eq := a.C == b.C && a.BA == b.BA
		if eq && a.BA != nil {
			if a.Idx.IsC() && b.Idx.IsC() {
				eq = a.Idx.C == b.Idx.C
			}
		}
		if op == token.EQL {
			return CB(eq)
		}
		return CB(!eq)
	case Slice:
		b := y.(Slice)
		eq := (a.Nil && a.A == nil && a.B == nil) && (b.Nil && b.A == nil && b.B == nil)
		if op == token.EQL {
			return CB(eq)
		}
		return CB(!eq)
	case Map:
		b := y.(Map)
		eq := a.M == b.M
		if op == token.EQL {
			return CB(eq)
		}
		return CB(!eq)
	case Chan:
		b := y.(Chan)
		eq := a.C == b.C
		if op == token.EQL {
			return CB(eq)
		}
		return CB(!eq)
	case Func:
		b := y.(Func)
		eq := a.Fn == nil && b.Fn == nil && a.Nat == "" && b.Nat == ""
		if op == token.EQL {
			return CB(eq)
		}
		return CB(!eq)
	case Struct:
		b := y.(Struct)
		r := m.keyEq(a, b)
		if op == token.EQL {
			return r
		}
		return Not(r)
	case Opaque:
		if op == token.EQL || op == token.NEQ || op == token.LSS || op == token.GTR || op == token.LEQ || op == token.GEQ {
			m.incon("comparison of opaque (float) values")
		}
		return a
	}
	m.incon(fmt.Sprintf("binop %s on %T", op, x))
	return nil
}

// ifaceEqSym: interface equality with symbolic payloads (strings, integers, booleans)
func (m *Machine) ifaceEqSym(a, b Iface) Bool {
	if a.T == nil || b.T == nil {
		return CB(a.T == nil && b.T == nil)
	}
	if !types.Identical(a.T, b.T) {
		return CB(false)
	}
	switch av := a.V.(type) {
	case Str:
		if bv, ok := b.V.(Str); ok {
			return m.strEq(av, bv)
		}
	case Int:
		if bv, ok := b.V.(Int); ok && av.W == bv.W {
			return m.intBin(token.EQL, av, bv, false).(Bool)
		}
	case Bool:
		if bv, ok := b.V.(Bool); ok {
			if av.IsC() && bv.IsC() {
				return CB(av.C == bv.C)
			}
			return Bool{S: "(= " + av.T() + " " + bv.T() + ")"}
		}
	}
	return CB(ifaceEq(a, b))
}

func ifaceEq(a, b Iface) bool {
	if a.T == nil || b.T == nil {
		return a.T == nil && b.T == nil
	}
	if !types.Identical(a.T, b.T) {
		return false
	}
	switch av := a.V.(type) {
	case Ptr:
		bv, ok := b.V.(Ptr)
		return ok && av.C == bv.C && av.BA == bv.BA
	case Int:
		bv, ok := b.V.(Int)
		return ok && av.IsC() && bv.IsC() && av.C == bv.C
	case Str:
		bv, ok := b.V.(Str)
		return ok && av.IsC() && bv.IsC() && av.C == bv.C
	case Struct:
		bv, ok := b.V.(Struct)
		return ok && len(av.F) == 0 && len(bv.F) == 0
	}
	return false
}

// --- strings ---

func (m *Machine) strLen(a Str) Int {
	if a.IsB {
		return CI(64, uint64(len(a.B)))
	}
	if a.IsC() {
		return CI(64, uint64(len(a.C)))
	}
	return Int{W: 64, S: "((_ int2bv 64) (str.len " + a.S + "))", N: "(str.len " + a.S + ")"}
}

func (m *Machine) strBytes(a Str) []Int {
	if a.IsB {
		return a.B
	}
	out := make([]Int, len(a.C))
	for i := 0; i < len(a.C); i++ {
		out[i] = CI(8, uint64(a.C[i]))
	}
	return out
}

// parts returns the structured form of a string if it has one.
func (s Str) parts() ([]strPart, bool) {
	if s.IsB {
		return nil, false
	}
	if s.S == "" {
		return []strPart{{Lit: s.C}}, true
	}
	if s.P != nil {
		return s.P, true
	}
	return nil, false
}

var canonInt = regexp.MustCompile(`^(0|-?[1-9][0-9]*)$`)

// structEq decides equality of strings of the shape literal [+ integer rendering] without string
// reasoning: an integer rendering is digits (with optional sign) and the literal in front of it is
// empty or ends with '_', so the split is unique.
func (m *Machine) structEq(a, b Str) (Bool, bool) {
	pa, ok1 := a.parts()
	pb, ok2 := b.parts()
	if !ok1 || !ok2 {
		return Bool{}, false
	}
	shape := func(p []strPart) (lit string, big string, hex bool, ok bool) {
		switch {
		case len(p) == 1 && p[0].Big == "":
			return p[0].Lit, "", false, true
		case len(p) == 1:
			return "", p[0].Big, p[0].Hex, true
		case len(p) == 2 && p[0].Big == "" && p[1].Big != "":
			return p[0].Lit, p[1].Big, p[1].Hex, true
		}
		return "", "", false, false
	}
	la, ba, ha, oka := shape(pa)
	lb, bb, hb, okb := shape(pb)
	if !oka || !okb {
		return Bool{}, false
	}
	if ba != "" && bb != "" && ha != hb {
		// a decimal and a hexadecimal rendering may or may not coincide ("10"): arbitrary verdict
		m.stubsRun["over-approx: decimal vs hex rendering may coincide"]++
		return m.ex.NondetBool("mixed_radix_collision"), true
	}
	isHex := ha || hb
	allDigits := func(s string) bool {
		for i := 0; i < len(s); i++ {
			if (s[i] < '0' || s[i] > '9') && !(isHex && s[i] >= 'a' && s[i] <= 'f') {
				return false
			}
		}
		return len(s) > 0
	}
	switch {
	case ba != "" && bb != "":
		if la == lb {
			if ba == bb {
				return CB(true), true
			}
			return Bool{S: "(= " + ba + " " + bb + ")"}, true
		}
		// different literals in front of two integer renderings: equal strings are only possible when one
		// literal extends the other by digits (no separator between name and number): "CA 1"+"23" = "CA 12"+"3"
		short, long := la, lb
		if len(short) > len(long) {
			short, long = long, short
		}
		if !strings.HasPrefix(long, short) {
			return CB(false), true
		}
		rest := long[len(short):]
		if !allDigits(rest) || (rest[0] == '0' && !isHex) {
			return CB(false), true // an integer rendering is digits only, without leading zero
		}
		// may coincide for suitable values (the exact digit relation is not modelled): arbitrary verdict
		m.stubsRun["over-approx: name+number strings without separator may coincide"]++
		return m.ex.NondetBool("digit_boundary_collision"), true
	case ba == "" && bb == "":
		return CB(la == lb), true
	}
	// literal vs literal+integer
	if ba == "" {
		la, lb, bb, ba = lb, la, ba, bb
	}
	if isHex {
		// a = la + hex(bytes(ba)), b = literal lb: the rest must be an even number of lower-case hex digits
		// without a leading zero byte
		if !strings.HasPrefix(lb, la) {
			return CB(false), true
		}
		rest := lb[len(la):]
		if len(rest)%2 != 0 || strings.HasPrefix(rest, "00") {
			return CB(false), true
		}
		v := new(big.Int)
		if rest != "" {
			for i := 0; i < len(rest); i++ {
				if !(rest[i] >= '0' && rest[i] <= '9') && !(rest[i] >= 'a' && rest[i] <= 'f') {
					return CB(false), true
				}
			}
			if _, ok := v.SetString(rest, 16); !ok || v.BitLen() > bigW-2 {
				return CB(false), true
			}
		}
		return Bool{S: "(= " + ba + " " + Big{V: v}.Term() + ")"}, true
	}
	// now a = la+int(ba), b = literal lb
	if !strings.HasPrefix(lb, la) {
		return CB(false), true
	}
	rest := lb[len(la):]
	if !canonInt.MatchString(rest) {
		return CB(false), true
	}
	v, ok := new(big.Int).SetString(rest, 10)
	if !ok || v.BitLen() > bigW-2 {
		return CB(false), true
	}
	return Bool{S: "(= " + ba + " " + Big{V: v}.Term() + ")"}, true
}

func (m *Machine) strEq(a, b Str) Bool {
	if a.IsC() && b.IsC() {
		return CB(a.C == b.C)
	}
	if a.IsB && b.IsB && a.Org != nil && b.Org != nil && len(a.B) == len(b.B) {
		// both are values of the same injective hash: equal iff the hashed strings are equal
		return m.strEq(*a.Org, *b.Org)
	}
	if r, ok := m.structEq(a, b); ok {
		return r
	}
	m.flushAxioms()
	if a.IsB || b.IsB {
		if (a.S != "" && !a.IsB) || (b.S != "" && !b.IsB) {
			// over-approximation (any verdict): only library text round-trips compare these
			m.stubsRun["over-approx: byte-string == SMT-string"]++
			return m.ex.NondetBool("streq_mixed")
		}
		x, y := m.strBytes(a), m.strBytes(b)
		if len(x) != len(y) {
			return CB(false)
		}
		r := CB(true)
		for i := range x {
			r = And(r, m.intBin(token.EQL, x[i], y[i], false).(Bool))
		}
		return r
	}
	return Bool{S: "(= " + a.T() + " " + b.T() + ")"}
}

func (m *Machine) strConcat(a, b Str) Str {
	if a.IsC() && b.IsC() {
		return Str{C: a.C + b.C}
	}
	if a.IsB || b.IsB {
		if (a.S != "" && !a.IsB) || (b.S != "" && !b.IsB) {
			m.incon("concat of byte-string with SMT string")
		}
		return Str{IsB: true, B: append(append([]Int{}, m.strBytes(a)...), m.strBytes(b)...)}
	}
	if a.IsC() && a.C == "" {
		return b
	}
	if b.IsC() && b.C == "" {
		return a
	}
	out := Str{S: "(str.++ " + a.T() + " " + b.T() + ")"}
	pa, ok1 := a.parts()
	pb, ok2 := b.parts()
	if ok1 && ok2 {
		ps := append([]strPart{}, pa...)
		for _, q := range pb {
			if n := len(ps); n > 0 && ps[n-1].Big == "" && q.Big == "" {
				ps[n-1].Lit += q.Lit
			} else {
				ps = append(ps, q)
			}
		}
		out.P = ps
	}
	return out
}

func (m *Machine) strSlice(s Str, lo, hi *Int) Val {
	n := m.strLen(s)
	l, h := CI(64, 0), n
	if lo != nil {
		l = *lo
	}
	if hi != nil {
		h = *hi
	}
	if s.IsB || s.IsC() {
		m.rtOblige(And(And(sle(CI(64, 0), l), sle(l, h)), sle(h, n)), "slice-bounds-out-of-range")
		l, h = m.concretize(l, "string slice bound"), m.concretize(h, "string slice bound")
		if s.IsB {
			return Str{IsB: true, B: s.B[l.C:h.C]}
		}
		return Str{C: s.C[l.C:h.C]}
	}
	it := func(x Int) string {
		if x.IsC() {
			return fmt.Sprint(x.C)
		}
		if x.N != "" {
			return x.N
		}
		return "(bv2nat " + x.S + ")"
	}
	m.rtOblige(Bool{S: "(and (<= 0 " + it(l) + ") (<= " + it(l) + " " + it(h) + ") (<= " + it(h) + " (str.len " + s.S + ")))"}, "slice-bounds-out-of-range")
	return Str{S: "(str.substr " + s.S + " " + it(l) + " (- " + it(h) + " " + it(l) + "))"}
}

func (m *Machine) strToBytes(s Str) Slice {
	if !s.IsC() && !s.IsB {
		m.incon("[]byte(symbolic SMT string)")
	}
	bs := m.strBytes(s)
	n := CI(64, uint64(len(bs)))
	ba := newByteArr(n)
	for i, b := range bs {
		m.baSto(ba, CI(64, uint64(i)), b)
	}
	return Slice{B: ba, Off: CI(64, 0), Len: n, Cap: n}
}

// bytesToStr converts a byte slice of concrete (or small) length into a byte-string.
func (m *Machine) bytesToStr(s Slice) Str {
	if s.B == nil {
		return Str{}
	}
	ln := m.concretizeSmall(s.Len)
	if !ln.IsC() {
		ln = m.concretize(ln, "string(bytes) length")
	}
	out := Str{IsB: true}
	if s.B.Org != nil && s.Off.IsC() && s.Off.C == 0 && s.B.Cap.IsC() && s.B.Cap.C == ln.C {
		out.Org = s.B.Org
	}
	allC := true
	for i := uint64(0); i < ln.C; i++ {
		b := m.baSel(s.B, m.add(s.Off, CI(64, i)))
		if !b.IsC() {
			allC = false
		}
		out.B = append(out.B, b)
	}
	if allC {
		bs := make([]byte, len(out.B))
		for i, b := range out.B {
			bs[i] = byte(b.C)
		}
		return Str{C: string(bs)}
	}
	return out
}

func (m *Machine) convert(v Val, from, to types.Type) Val {
	if i, ok := v.(Int); ok {
		if w, _, ok := intWidth(to); ok {
			_, fs, _ := intWidth(from)
			return m.resize(i, w, fs)
		}
		if isFloat(to) {
			return Opaque{Name: "float"}
		}
		if b, ok := to.Underlying().(*types.Basic); ok && b.Kind() == types.String {
			if i.IsC() {
				return Str{C: string(rune(i.C))}
			}
			m.incon("string(symbolic rune)")
		}
		if b, ok := to.Underlying().(*types.Basic); ok && b.Kind() == types.UnsafePointer {
			return Ptr{}
		}
	}
	if _, ok := v.(Opaque); ok {
		if isFloat(to) {
			return v
		}
		if w, _, ok := intWidth(to); ok {
			return m.ex.NondetBV("float2int", w)
		}
	}
	if s, ok := v.(Str); ok {
		if sl, ok := to.Underlying().(*types.Slice); ok && isByte(sl.Elem()) {
			return m.strToBytes(s)
		}
		if _, ok := to.Underlying().(*types.Basic); ok {
			return s
		}
		if sl, ok := to.Underlying().(*types.Slice); ok {
			if b, ok := sl.Elem().Underlying().(*types.Basic); ok && b.Kind() == types.Int32 && s.IsC() {
				rs := []rune(s.C)
				a := &Array{E: make([]*Cell, len(rs))}
				for i, r := range rs {
					a.E[i] = m.newCell(CI(32, uint64(r)))
				}
				n := CI(64, uint64(len(rs)))
				return Slice{A: a, Off: CI(64, 0), Len: n, Cap: n}
			}
		}
	}
	if sl, ok := v.(Slice); ok {
		if b, ok := to.Underlying().(*types.Basic); ok && b.Kind() == types.String {
			if fs, ok := from.Underlying().(*types.Slice); ok && !isByte(fs.Elem()) {
				// string([]rune): concrete runes only
				var rs []rune
				if sl.A != nil {
					for _, c := range m.sliceElems(sl) {
						r, ok := c.V.(Int)
						if !ok || !r.IsC() {
							m.incon("string([]rune) with a symbolic rune")
						}
						rs = append(rs, rune(int32(r.C)))
					}
				}
				return Str{C: string(rs)}
			}
			return m.bytesToStr(sl)
		}
	}
	if p, ok := v.(Ptr); ok {
		return p
	}
	m.incon(fmt.Sprintf("convert %s -> %s", from, to))
	return nil
}

func trunc(s string, n int) string {
	s = strings.Join(strings.Fields(s), " ")
	if len(s) > n {
		return s[:n] + "..."
	}
	return s
}
