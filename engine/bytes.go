package main

import "sort"

// Byte buffers keep an SMT array term T plus a cache of the values at concrete indices (Known);
// Dirty lists cached writes not yet contained in T. Reads at concrete indices that hit the cache
// (or a zero-based array) are folded in Go, so fully concrete computations never reach the solver.

func newByteArr(cap Int) *ByteArr { return &ByteArr{T: zeroArr, Cap: cap, Zero: true} }

func (m *Machine) baTerm(a *ByteArr) string {
	if len(a.Dirty) > 0 {
		ks := make([]uint64, 0, len(a.Dirty))
		for k := range a.Dirty {
			ks = append(ks, k)
		}
		sort.Slice(ks, func(i, j int) bool { return ks[i] < ks[j] })
		t := a.T
		for i, k := range ks {
			t = "(store " + t + " " + CI(64, k).T() + " " + a.Known[k].T() + ")"
			if i%16 == 15 {
				t = m.ex.Name("arr", arrSort, t)
			}
		}
		a.T = m.ex.Name("arr", arrSort, t)
		a.Dirty = nil
	}
	return a.T
}

func (m *Machine) baSel(a *ByteArr, idx Int) Int {
	if a.BigAbs != "" {
		m.incon("bytes of a symbolic big.Int are only supported as argument of hex.EncodeToString")
	}
	if a.Org != nil && len(m.pendingAx) > 0 {
		m.flushAxioms() // the bytes of a hash value are inspected individually: its axioms are needed
	}
	if idx.IsC() {
		if v, ok := a.Known[idx.C]; ok {
			return v
		}
		if a.Zero {
			return CI(8, 0)
		}
	}
	return Int{W: 8, S: "(select " + m.baTerm(a) + " " + idx.T() + ")"}
}

func (m *Machine) baSto(a *ByteArr, idx Int, v Int) {
	a.Org = nil
	if idx.IsC() {
		if a.Known == nil {
			a.Known = map[uint64]Int{}
		}
		if a.Dirty == nil {
			a.Dirty = map[uint64]bool{}
		}
		a.Known[idx.C] = v
		a.Dirty[idx.C] = true
		return
	}
	t := m.baTerm(a)
	a.T = m.ex.Name("arr", arrSort, "(store "+t+" "+idx.T()+" "+v.T()+")")
	a.Known = nil
	a.Zero = false
}

// baSetTerm replaces the whole content by an SMT term.
func (m *Machine) baSetTerm(a *ByteArr, t string) {
	a.Org = nil
	a.T = t
	a.Known = nil
	a.Dirty = nil
	a.Zero = false
}

func cloneByteArr(x *ByteArr) *ByteArr {
	n := &ByteArr{T: x.T, Cap: x.Cap, Zero: x.Zero, Org: x.Org}
	if len(x.Known) > 0 {
		n.Known = make(map[uint64]Int, len(x.Known))
		for k, v := range x.Known {
			n.Known[k] = v
		}
	}
	if len(x.Dirty) > 0 {
		n.Dirty = make(map[uint64]bool, len(x.Dirty))
		for k := range x.Dirty {
			n.Dirty[k] = true
		}
	}
	return n
}
