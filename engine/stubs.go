package main

import (
	"os"
	"reflect"
	"encoding/hex"
	"fmt"
	"go/token"
	"go/types"
	"math/big"
	"path/filepath"
	"regexp"
	"strconv"
	"strings"
	"sync"
	"time"

	"golang.org/x/tools/go/ssa/ssautil"
)

type stubFn func(m *Machine, args []Val) Val

var stubs map[string]stubFn

const modPath = "github.com/gr33nbl00d/caddy-revocation-validator"
const vrt = modPath + "/zz_verif/verifrt."

type lockState struct {
	writer  bool
	readers int
	name    string
	other   bool   // currently held by another (modelled) thread that will release it: Lock waits, TryLock fails
	wBy     int    // thread that holds it for writing (valid while writer)
	rdBy    [2]int // read holds per thread (0 = the running operation, 1 = the interleaved one)
}

func (m *Machine) newErr(name string) Val {
	m.errCtr++
	return Iface{T: opaqueErrType, V: Ptr{C: &Cell{V: Opaque{Name: fmt.Sprintf("%s#%d", name, m.errCtr)}}}}
}

func nilErr() Val { return Iface{} }

func bigOf(m *Machine, v Val) *Cell {
	p := v.(Ptr)
	if p.C == nil {
		m.rtPanic("nil-deref (big.Int)")
	}
	return p.C
}

func bigV(m *Machine, v Val) Big {
	c := bigOf(m, v)
	b, ok := c.V.(Big)
	if !ok {
		m.incon("big.Int cell holds " + fmt.Sprintf("%T", c.V))
	}
	return b
}

func (m *Machine) newBig(t string) Val { return Ptr{C: m.newCell(Big{T: t})} }

func concStr(m *Machine, v Val, what string) string {
	s := v.(Str)
	if !s.IsC() {
		m.incon(what + ": symbolic string argument")
	}
	return s.C
}

func (m *Machine) lockOf(v Val) (*Cell, *lockState) {
	p := v.(Ptr)
	if p.C == nil {
		m.rtPanic("nil-deref (mutex)")
	}
	ls := m.locks[p.C]
	if ls == nil {
		ls = &lockState{name: p.C.Name}
		m.locks[p.C] = ls
	}
	return p.C, ls
}

func (m *Machine) timeVal(wall uint64, ext Int) Val {
	return Struct{F: []*Cell{m.newCell(CI(64, wall)), m.newCell(ext), m.newCell(Ptr{})}}
}

// dynStruct: the struct type behind an interface value (through pointers), nil if there is none
func dynStruct(v Val) *types.Struct {
	iv, ok := v.(Iface)
	if !ok || iv.T == nil {
		return nil
	}
	t := iv.T
	for {
		if p, ok := t.Underlying().(*types.Pointer); ok {
			t = p.Elem()
			continue
		}
		break
	}
	st, _ := t.Underlying().(*types.Struct)
	return st
}

func timeExt(v Val) Int { return v.(Struct).F[1].V.(Int) }

// setTimeYear records the calendar year of the time value whose ext field is the (fresh) term ext.
func (m *Machine) setTimeYear(ext Int, year Int) {
	if m.timeYear == nil {
		m.timeYear = map[string]Int{}
	}
	m.timeYear[ext.T()] = year
}

func (m *Machine) strHasPrefix(s, p Str) Bool {
	if s.IsC() && p.IsC() {
		return CB(strings.HasPrefix(s.C, p.C))
	}
	if s.IsB || p.IsB {
		m.incon("HasPrefix on byte-string")
	}
	return Bool{S: "(str.prefixof " + p.T() + " " + s.T() + ")"}
}

// sliceElems returns the element cells of a non-byte slice.
func (m *Machine) sliceElems(v Val) []*Cell {
	s := v.(Slice)
	if s.A == nil {
		return nil
	}
	off, ln := m.concretize(s.Off, "slice off"), m.concretize(s.Len, "slice len")
	return s.A.E[off.C : off.C+ln.C]
}

func (m *Machine) mkStrSlice(ss []Str) Val {
	a := &Array{E: make([]*Cell, len(ss))}
	for i, s := range ss {
		a.E[i] = m.newCell(s)
	}
	n := CI(64, uint64(len(ss)))
	return Slice{A: a, Off: CI(64, 0), Len: n, Cap: n}
}

func init() {
	stubs = map[string]stubFn{
		// ---- verifrt API ----
		vrt + "NondetInt":   func(m *Machine, a []Val) Val { return m.ex.NondetBV(a[0].(Str).C, 64) },
		vrt + "NondetInt64": func(m *Machine, a []Val) Val { return m.ex.NondetBV(a[0].(Str).C, 64) },
		vrt + "NondetU64":   func(m *Machine, a []Val) Val { return m.ex.NondetBV(a[0].(Str).C, 64) },
		vrt + "NondetU8":    func(m *Machine, a []Val) Val { return m.ex.NondetBV(a[0].(Str).C, 8) },
		vrt + "NondetBool":  func(m *Machine, a []Val) Val { return m.ex.NondetBool(a[0].(Str).C) },
		vrt + "NondetBytes": func(m *Machine, a []Val) Val {
			n := a[1].(Int)
			if !n.IsC() {
				m.incon("NondetBytes with symbolic size")
			}
			name := m.ex.nondetName(a[0].(Str).C)
			m.ex.Declare(name, arrSort)
			lbl := strings.Trim(name, "|")
			for i := uint64(0); i < n.C; i++ {
				m.ex.nondets = append(m.ex.nondets, nondet{fmt.Sprintf("%s[%d]", lbl, i), fmt.Sprintf("(select %s (_ bv%d 64))", name, i)})
			}
			ba := &ByteArr{T: name, Cap: n}
			return Slice{B: ba, Off: CI(64, 0), Len: n, Cap: n}
		},
		vrt + "NondetString": func(m *Machine, a []Val) Val { return m.ex.NondetStr(a[0].(Str).C) },
		vrt + "Choose": func(m *Machine, a []Val) Val {
			n := a[0].(Int)
			return CI(64, uint64(m.ex.Choose(int(n.C))))
		},
		vrt + "Assume": func(m *Machine, a []Val) Val {
			b := a[0].(Bool)
			if b.IsC() {
				if !b.C {
					panic(pathEnd{"assume"})
				}
				return nil
			}
			if !m.ex.replaying() {
				r := m.ex.check(b.S)
				m.ex.pop()
				if r == "unsat" {
					panic(pathEnd{"assume infeasible"})
				}
			}
			m.ex.Assume(b)
			return nil
		},
		vrt + "Assert": func(m *Machine, a []Val) Val { m.ex.Oblige(a[0].(Bool), "assert:"+a[1].(Str).C); return nil },
		vrt + "Reach":  func(m *Machine, a []Val) Val { m.ex.Reach(a[0].(Str).C); return nil },
		vrt + "AllocBudget": func(m *Machine, a []Val) Val {
			i := a[0].(Int)
			m.allocBudget = &i
			return nil
		},
		vrt + "Param": func(m *Machine, a []Val) Val {
			if v, ok := m.cfg.Params[a[0].(Str).C]; ok {
				return CI(64, uint64(int64(v)))
			}
			return a[1]
		},
		vrt + "Symbolic": func(m *Machine, a []Val) Val { return CB(true) },
		vrt + "Override": func(m *Machine, a []Val) Val {
			iv := a[1].(Iface)
			f, ok := iv.V.(Func)
			if !ok {
				m.incon("Override: not a function")
			}
			name := a[0].(Str).C
			if !m.functionExists(name) {
				m.incon("harness out of date: override target " + name + " does not exist in the current tree")
			}
			m.overrides[name] = f
			return nil
		},
		// OverrideIfPresent: like Override for a library function the current tree may not use at all (then there is nothing to model)
		vrt + "OverrideIfPresent": func(m *Machine, a []Val) Val {
			iv := a[1].(Iface)
			f, ok := iv.V.(Func)
			if !ok {
				m.incon("Override: not a function")
			}
			m.overrides[a[0].(Str).C] = f
			return nil
		},
		vrt + "ClearOverride": func(m *Machine, a []Val) Val { delete(m.overrides, a[0].(Str).C); return nil },
		// FieldSpec(v, name): "<declaration index>|<asn1 struct tag>" of the named field of v's dynamic struct type
		// (pointers dereferenced), read from the CURRENT source; "" when the type has no such field.
		// FieldCount(v): number of fields of that struct type.
		vrt + "FieldSpec": func(m *Machine, a []Val) Val {
			st := dynStruct(a[0])
			if st == nil {
				m.incon("FieldSpec: not a struct value")
			}
			for i := 0; i < st.NumFields(); i++ {
				if st.Field(i).Name() == a[1].(Str).C {
					return Str{C: fmt.Sprintf("%d|%s", i, reflect.StructTag(st.Tag(i)).Get("asn1"))}
				}
			}
			m.incon("harness out of date: the struct has no field " + a[1].(Str).C)
			return Str{C: ""}
		},
		vrt + "OutOfDate": func(m *Machine, a []Val) Val { m.incon("harness out of date: " + a[0].(Str).C); return nil },
		vrt + "FieldCount": func(m *Machine, a []Val) Val {
			st := dynStruct(a[0])
			if st == nil {
				m.incon("FieldCount: not a struct value")
			}
			return CI(64, uint64(st.NumFields()))
		},
		vrt + "AllowPanics":   func(m *Machine, a []Val) Val { m.allowPanics = a[0].(Bool).C; return nil },
		vrt + "StepBudget": func(m *Machine, a []Val) Val {
			m.maxSteps = m.steps + int64(a[0].(Int).C)
			m.stepsViol = a[1].(Bool).C
			return nil
		},
		vrt + "MapOrders": func(m *Machine, a []Val) Val { m.cfg.MapOrders = a[0].(Bool).C; return nil },
		vrt + "SpawnedCount": func(m *Machine, a []Val) Val {
			return CI(64, uint64(len(m.spawned)))
		},
		vrt + "RunSpawned": func(m *Machine, a []Val) Val {
			n := 0
			for len(m.spawned) > 0 {
				f := m.spawned[0]
				m.spawned = m.spawned[1:]
				f()
				n++
			}
			return CI(64, uint64(n))
		},
		vrt + "DropSpawned": func(m *Machine, a []Val) Val { m.spawned = nil; return nil },
		vrt + "Crash":       func(m *Machine, a []Val) Val { panic(crashSignal{}) },
		vrt + "CatchCrash": func(m *Machine, a []Val) (ret Val) {
			f := a[0].(Func)
			d0, s0 := m.depth, len(m.callStack)
			defer func() {
				if r := recover(); r != nil {
					if _, ok := r.(crashSignal); !ok {
						panic(r)
					}
					m.depth, m.callStack = d0, m.callStack[:s0]
					m.locks = map[*Cell]*lockState{}
					m.heldOrder = nil
					m.spawned = nil
					ret = CB(true)
				}
			}()
			m.callFunction(f.Fn, nil, f.Env)
			return CB(false)
		},
		vrt + "CatchPanic": func(m *Machine, a []Val) (ret Val) {
			f := a[0].(Func)
			d0, s0 := m.depth, len(m.callStack)
			saved := m.allowPanics
			m.allowPanics = true
			defer func() {
				m.allowPanics = saved
				if r := recover(); r != nil {
					if _, ok := r.(goPanic); !ok {
						panic(r)
					}
					m.depth, m.callStack = d0, m.callStack[:s0]
					m.curPanic = nil
					ret = CB(true)
				}
			}()
			m.callFunction(f.Fn, nil, f.Env)
			return CB(false)
		},
		vrt + "LocksHeld": func(m *Machine, a []Val) Val {
			n := 0
			for _, ls := range m.locks {
				if ls.writer || ls.readers > 0 {
					n++
				}
			}
			return CI(64, uint64(n))
		},
		vrt + "ResetLocks": func(m *Machine, a []Val) Val {
			m.locks = map[*Cell]*lockState{}
			m.heldOrder = nil
			return nil
		},
		vrt + "NewError": func(m *Machine, a []Val) Val { return m.newErr(a[0].(Str).C) },
		vrt + "TimeAt":   func(m *Machine, a []Val) Val { return m.timeVal(1, a[0].(Int)) },
		vrt + "TimeNs":   func(m *Machine, a []Val) Val { return timeExt(a[0]) },
		vrt + "SetNow": func(m *Machine, a []Val) Val {
			i := a[0].(Int)
			m.nowLast = &i
			m.notes["fixednow"] = CB(true)
			return nil
		},
		vrt + "FreeNow": func(m *Machine, a []Val) Val { delete(m.notes, "fixednow"); return nil },
		vrt + "TraceBegin": func(m *Machine, a []Val) Val {
			m.epoch++
			m.trace = &OpTrace{Op: a[0].(Str).C, epoch: m.epoch, Path: len(m.ex.taken)}
			return nil
		},
		vrt + "TraceEnd": func(m *Machine, a []Val) Val {
			if m.trace != nil {
				m.trace.finish(m)
				m.ex.res.mu.Lock()
				m.ex.res.Traces = append(m.ex.res.Traces, m.trace)
				m.ex.res.mu.Unlock()
				m.trace = nil
			}
			return nil
		},
		vrt + "UFStr": func(m *Machine, a []Val) Val {
			// uninterpreted, injective function String -> String named by a[0]
			return m.ufStr(a[0].(Str).C, a[1].(Str))
		},
		vrt + "BytesToToken": func(m *Machine, a []Val) Val {
			return m.bytesToStr(a[0].(Slice))
		},
		vrt + "BytesEqual": func(m *Machine, a []Val) Val { return m.bytesEqual(a[0].(Slice), a[1].(Slice)) },
		vrt + "And":     func(m *Machine, a []Val) Val { return And(a[0].(Bool), a[1].(Bool)) },
		vrt + "Or":      func(m *Machine, a []Val) Val { return Or(a[0].(Bool), a[1].(Bool)) },
		vrt + "Implies": func(m *Machine, a []Val) Val { return Or(Not(a[0].(Bool)), a[1].(Bool)) },
		vrt + "UFBytes64": func(m *Machine, a []Val) Val {
			name := a[0].(Str).C
			s := a[1].(Str)
			if s.IsB {
				m.incon("UFBytes64 of byte-string")
			}
			key := "ufb:" + name
			if _, ok := m.notes[key]; !ok {
				m.ex.z.Send("(declare-fun " + name + " (String) (_ BitVec 64))")
			}
			prev, _ := m.notes[key].([]string)
			t := s.T()
			dup := false
			for _, u := range prev {
				if u == t {
					dup = true
					continue
				}
				m.pendingAx = append(m.pendingAx, "(assert (=> (not (= "+t+" "+u+")) (not (= ("+name+" "+t+") ("+name+" "+u+")))))")
			}
			if !dup {
				prev = append(prev, t)
			}
			m.notes[key] = prev
			h := m.ex.Name("h64", "(_ BitVec 64)", "("+name+" "+t+")")
			ba := newByteArr(CI(64, 8))
			for i := 0; i < 8; i++ {
				m.baSto(ba, CI(64, uint64(i)), Int{W: 8, S: fmt.Sprintf("((_ extract %d %d) %s)", 8*i+7, 8*i, h)})
			}
			org := s
			ba.Org = &org
			return Slice{B: ba, Off: CI(64, 0), Len: CI(64, 8), Cap: CI(64, 8)}
		},
		vrt + "OtherThreadHolds": func(m *Machine, a []Val) Val {
			iv := a[0].(Iface)
			_, ls := m.lockOf(iv.V)
			ls.other = true
			return nil
		},
		vrt + "Note": func(m *Machine, a []Val) Val {
			if os.Getenv("GOSYM_NOTES") != "" {
				if st, ok := a[0].(Str); ok {
					fmt.Fprintf(os.Stderr, "NOTE: %q %s\n", st.C, st.S)
				}
			}
			return nil
		},
		vrt + "CheckAlloc": func(m *Machine, a []Val) Val { return nil },
		vrt + "MaxAlloc": func(m *Machine, a []Val) Val {
			r := CI(64, 0)
			if m.maxAlloc != nil {
				r = *m.maxAlloc
			}
			if len(a) > 0 {
				if b, ok := a[0].(Bool); ok && b.IsC() && b.C {
					m.maxAlloc = nil
				}
			}
			return r
		},
		vrt + "LiveBytes": func(m *Machine, a []Val) Val { return m.liveBytes(nil) },
		vrt + "LiveBytesExcluding": func(m *Machine, a []Val) Val {
			var ex []Val
			for _, c := range m.sliceElems(a[0]) {
				ex = append(ex, c.V)
			}
			return m.liveBytes(ex)
		},
		vrt + "PreemptAtLock": func(m *Machine, a []Val) Val {
			k := a[0].(Int)
			if !k.IsC() {
				m.incon("PreemptAtLock: symbolic index")
			}
			f := a[1].(Func)
			m.preemptAt, m.preemptFn, m.lockAcq, m.preemptRan = int(k.C), &f, 0, false
			return nil
		},
		// Yield: a point inside a long-running environment call (a download) at which another operation may run
		vrt + "Yield": func(m *Machine, a []Val) Val {
			if m.cur == 1 {
				m.co.yield <- coMsg{kind: 3}
				if !<-m.co.resume {
					panic(coKill{})
				}
				return nil
			}
			m.maybePreempt()
			return nil
		},
		vrt + "SpawnAsThread": func(m *Machine, a []Val) Val { m.spawnAsThread = a[0].(Bool).C; return nil },
		vrt + "JoinThread": func(m *Machine, a []Val) Val {
			ran := m.co != nil
			m.finishCo()
			m.co = nil
			return CB(ran)
		},
		vrt + "PreemptRan": func(m *Machine, a []Val) Val {
			r := m.preemptRan
			m.preemptFn = nil
			m.finishCo()
			m.co = nil
			return CB(r)
		},
		vrt + "KeepSymbolicBounds": func(m *Machine, a []Val) Val { m.keepSymBounds = a[0].(Bool).C; return nil },

		// ---- fmt / errors ----
		"fmt.Errorf":  func(m *Machine, a []Val) Val { return m.newErr("fmt.Errorf") },
		"errors.New":  func(m *Machine, a []Val) Val { return m.newErr("errors.New") },
		"fmt.Sprintf": func(m *Machine, a []Val) Val { return m.sprintf(a) },
		"fmt.Sprint": func(m *Machine, a []Val) Val {
			out := Str{}
			for _, c := range m.sliceElems(a[0]) {
				r, ok := m.renderArg(c.V, 'v')
				if !ok {
					return Str{C: "<sprint>"}
				}
				out = m.strConcat(out, r)
			}
			return out
		},
		"fmt.Println": func(m *Machine, a []Val) Val { return Tuple{CI(64, 0), nilErr()} },
		"fmt.Printf":  func(m *Machine, a []Val) Val { return Tuple{CI(64, 0), nilErr()} },
		"errors.Is": func(m *Machine, a []Val) Val {
			return CB(ifaceEq(a[0].(Iface), a[1].(Iface)))
		},
		"opaqueError.Error": func(m *Machine, a []Val) Val { return Str{C: "<error>"} },

		// ---- math/big (BV128, constant-folded) ----
		"math/big.NewInt": func(m *Machine, a []Val) Val {
			x := a[0].(Int)
			if x.IsC() {
				return Ptr{C: m.newCell(Big{V: big.NewInt(x.Signed())})}
			}
			return m.newBig(m.resize(x, bigW, true).T())
		},
		"(*math/big.Int).SetUint64": func(m *Machine, a []Val) Val {
			x := a[1].(Int)
			if x.IsC() {
				bigOf(m, a[0]).V = Big{V: new(big.Int).SetUint64(x.C)}
			} else {
				bigOf(m, a[0]).V = Big{T: m.resize(x, bigW, false).T()}
			}
			return a[0]
		},
		"(*math/big.Int).SetInt64": func(m *Machine, a []Val) Val {
			x := a[1].(Int)
			if x.IsC() {
				bigOf(m, a[0]).V = Big{V: big.NewInt(x.Signed())}
			} else {
				bigOf(m, a[0]).V = Big{T: m.resize(x, bigW, true).T()}
			}
			return a[0]
		},
		"(*math/big.Int).Set": func(m *Machine, a []Val) Val {
			bigOf(m, a[0]).V = bigV(m, a[1])
			return a[0]
		},
		"(*math/big.Int).SetBytes": func(m *Machine, a []Val) Val {
			s := a[1].(Slice)
			ln := m.concretizeSmall(s.Len)
			if !ln.IsC() {
				m.incon("big.SetBytes with large symbolic length")
			}
			if ln.C > bigW/8-1 {
				m.incon("big.SetBytes > 31 bytes")
			}
			acc := bigZero
			allC := true
			cv := new(big.Int)
			for i := uint64(0); i < ln.C; i++ {
				b := m.baSel(s.B, m.add(s.Off, CI(64, i)))
				if b.IsC() {
					cv.Lsh(cv, 8)
					cv.Or(cv, big.NewInt(int64(b.C)))
				} else {
					allC = false
				}
				acc = fmt.Sprintf("(concat ((_ extract %d 0) %s) %s)", bigW-9, acc, b.T())
			}
			if allC {
				bigOf(m, a[0]).V = Big{V: cv}
			} else {
				bigOf(m, a[0]).V = Big{T: m.ex.Name("big", fmt.Sprintf("(_ BitVec %d)", bigW), acc)}
			}
			return a[0]
		},
		"(*math/big.Int).Add": func(m *Machine, a []Val) Val {
			x, y := bigV(m, a[1]), bigV(m, a[2])
			if x.V != nil && y.V != nil {
				bigOf(m, a[0]).V = Big{V: new(big.Int).Add(x.V, y.V)}
			} else {
				bigOf(m, a[0]).V = Big{T: "(bvadd " + x.Term() + " " + y.Term() + ")"}
			}
			return a[0]
		},
		"(*math/big.Int).Sub": func(m *Machine, a []Val) Val {
			x, y := bigV(m, a[1]), bigV(m, a[2])
			if x.V != nil && y.V != nil {
				bigOf(m, a[0]).V = Big{V: new(big.Int).Sub(x.V, y.V)}
			} else {
				bigOf(m, a[0]).V = Big{T: "(bvsub " + x.Term() + " " + y.Term() + ")"}
			}
			return a[0]
		},
		"(*math/big.Int).Int64": func(m *Machine, a []Val) Val {
			x := bigV(m, a[0])
			if x.V != nil {
				return CI(64, new(big.Int).And(x.V, new(big.Int).SetUint64(^uint64(0))).Uint64())
			}
			return Int{W: 64, S: m.ex.Name("i64", "(_ BitVec 64)", "((_ extract 63 0) "+x.T+")")}
		},
		"(*math/big.Int).Uint64": func(m *Machine, a []Val) Val {
			x := bigV(m, a[0])
			if x.V != nil {
				return CI(64, new(big.Int).And(x.V, new(big.Int).SetUint64(^uint64(0))).Uint64())
			}
			return Int{W: 64, S: "((_ extract 63 0) " + x.T + ")"}
		},
		"(*math/big.Int).IsInt64": func(m *Machine, a []Val) Val {
			x := bigV(m, a[0])
			if x.V != nil {
				return CB(x.V.IsInt64())
			}
			return Bool{S: fmt.Sprintf("(= %s ((_ sign_extend %d) ((_ extract 63 0) %s)))", x.T, bigW-64, x.T)}
		},
		"(*math/big.Int).Sign": func(m *Machine, a []Val) Val {
			x := bigV(m, a[0])
			if x.V != nil {
				return CI(64, uint64(int64(x.V.Sign())))
			}
			return Int{W: 64, S: "(ite (bvslt " + x.T + " " + bigZero + ") (_ bv18446744073709551615 64) (ite (= " + x.T + " " + bigZero + ") (_ bv0 64) (_ bv1 64)))"}
		},
		"(*math/big.Int).Cmp": func(m *Machine, a []Val) Val {
			x, y := bigV(m, a[0]), bigV(m, a[1])
			if x.V != nil && y.V != nil {
				return CI(64, uint64(int64(x.V.Cmp(y.V))))
			}
			xt, yt := x.Term(), y.Term()
			return Int{W: 64, S: "(ite (bvslt " + xt + " " + yt + ") (_ bv18446744073709551615 64) (ite (= " + xt + " " + yt + ") (_ bv0 64) (_ bv1 64)))"}
		},
		"(*math/big.Int).Bytes": func(m *Machine, a []Val) Val {
			x := bigV(m, a[0])
			if x.V != nil {
				return m.strToBytes(Str{C: string(x.V.Bytes())})
			}
			abs := m.ex.Name("bigabs", fmt.Sprintf("(_ BitVec %d)", bigW), "(ite (bvslt "+x.T+" "+bigZero+") (bvneg "+x.T+") "+x.T+")")
			n := m.ex.NondetBV("bigbyteslen", 64)
			m.ex.Assume(And(sle(CI(64, 0), n), sle(n, CI(64, bigW/8))))
			ba := &ByteArr{T: zeroArr, Cap: n, BigAbs: abs}
			return Slice{B: ba, Off: CI(64, 0), Len: n, Cap: n}
		},
		"encoding/hex.EncodeToString": func(m *Machine, a []Val) Val {
			sl := a[0].(Slice)
			if sl.B != nil && sl.B.BigAbs != "" {
				return m.ufHex(sl.B.BigAbs)
			}
			st := m.bytesToStr(sl)
			if st.IsC() {
				return Str{C: hex.EncodeToString([]byte(st.C))}
			}
			out := Str{IsB: true}
			nib := func(v string) Int {
				return Int{W: 8, S: "(ite (bvult " + v + " #x0a) (bvadd " + v + " #x30) (bvadd " + v + " #x57))"}
			}
			for _, b := range st.B {
				if b.IsC() {
					h := hex.EncodeToString([]byte{byte(b.C)})
					out.B = append(out.B, CI(8, uint64(h[0])), CI(8, uint64(h[1])))
					continue
				}
				out.B = append(out.B, nib("(bvlshr "+b.S+" #x04)"), nib("(bvand "+b.S+" #x0f)"))
			}
			return out
		},
		"(*math/big.Int).String": func(m *Machine, a []Val) Val {
			p := a[0].(Ptr)
			if p.C == nil {
				return Str{C: "<nil>"}
			}
			x := bigV(m, a[0])
			if x.V != nil {
				return Str{C: x.V.String()}
			}
			return m.ufBig(x.T)
		},

		// ---- sync ----
		"(*sync.Mutex).Lock": func(m *Machine, a []Val) Val {
			m.maybePreempt()
			c, ls := m.lockOf(a[0])
			ls.other = false // waits until the other thread has released it
			m.lockWrite(c, ls, "mutex")
			return nil
		},
		"(*sync.Mutex).TryLock": func(m *Machine, a []Val) Val {
			m.maybePreempt()
			c, ls := m.lockOf(a[0])
			if ls.writer || ls.readers > 0 || ls.other {
				return CB(false)
			}
			ls.writer, ls.wBy = true, m.cur
			m.acquired(c, ls, true)
			return CB(true)
		},
		"(*sync.RWMutex).TryLock": func(m *Machine, a []Val) Val {
			m.maybePreempt()
			c, ls := m.lockOf(a[0])
			if ls.writer || ls.readers > 0 {
				return CB(false)
			}
			ls.writer, ls.wBy = true, m.cur
			m.acquired(c, ls, true)
			return CB(true)
		},
		"(*sync.RWMutex).TryRLock": func(m *Machine, a []Val) Val {
			m.maybePreempt()
			c, ls := m.lockOf(a[0])
			if ls.writer {
				return CB(false)
			}
			ls.readers++
			ls.rdBy[m.cur]++
			m.acquired(c, ls, false)
			return CB(true)
		},
		"(*sync.Mutex).Unlock": func(m *Machine, a []Val) Val {
			c, ls := m.lockOf(a[0])
			if !ls.writer {
				m.rtPanic("unlock of unlocked mutex")
			}
			ls.writer = false
			m.released(c, ls, true)
			return nil
		},
		"(*sync.RWMutex).Lock": func(m *Machine, a []Val) Val {
			m.maybePreempt()
			c, ls := m.lockOf(a[0])
			m.lockWrite(c, ls, "RWMutex")
			return nil
		},
		"(*sync.RWMutex).Unlock": func(m *Machine, a []Val) Val {
			c, ls := m.lockOf(a[0])
			if !ls.writer {
				m.rtPanic("unlock of unlocked RWMutex")
			}
			ls.writer = false
			m.released(c, ls, true)
			return nil
		},
		"(*sync.RWMutex).RLock": func(m *Machine, a []Val) Val {
			m.maybePreempt()
			c, ls := m.lockOf(a[0])
			for ls.writer {
				if ls.wBy == m.cur {
					m.ex.Fail("deadlock:RLock of an RWMutex write-held by the same goroutine (" + ls.name + ") in " + m.where())
				}
				m.waitForOther(c, ls)
			}
			if ls.rdBy[m.cur] > 0 {
				// recursive read locking: sync.RWMutex forbids it - as soon as a writer is waiting between the
				// two acquisitions the second RLock queues behind the writer and the goroutine never returns
				m.ex.Fail("deadlock:recursive RLock of an RWMutex already read-held by the same goroutine (" + ls.name + "): blocks forever once a writer waits, in " + m.where())
			}
			ls.readers++
			ls.rdBy[m.cur]++
			m.acquired(c, ls, false)
			return nil
		},
		"(*sync.RWMutex).RUnlock": func(m *Machine, a []Val) Val {
			c, ls := m.lockOf(a[0])
			if ls.readers == 0 || ls.rdBy[m.cur] == 0 {
				m.rtPanic("RUnlock of unlocked RWMutex")
			}
			ls.readers--
			ls.rdBy[m.cur]--
			m.released(c, ls, false)
			return nil
		},

		// ---- time ----
		"time.Now": func(m *Machine, a []Val) Val { return m.timeVal(1, m.now()) },
		"time.Since": func(m *Machine, a []Val) Val {
			return m.sub(m.now(), timeExt(a[0]))
		},
		"time.Until": func(m *Machine, a []Val) Val {
			return m.sub(timeExt(a[0]), m.now())
		},
		"time.Sleep":       func(m *Machine, a []Val) Val { return nil },
		"(time.Time).Sub":  func(m *Machine, a []Val) Val { return m.sub(timeExt(a[0]), timeExt(a[1])) },
		"(time.Time).Add":  func(m *Machine, a []Val) Val { return m.timeVal(1, m.add(timeExt(a[0]), a[1].(Int))) },
		"(time.Time).IsZero": func(m *Machine, a []Val) Val {
			w := a[0].(Struct).F[0].V.(Int)
			return And(m.intBin(token.EQL, w, CI(64, 0), false).(Bool), m.intBin(token.EQL, timeExt(a[0]), CI(64, 0), false).(Bool))
		},
		"(time.Time).Before": func(m *Machine, a []Val) Val { return slt(timeExt(a[0]), timeExt(a[1])) },
		"(time.Time).After":  func(m *Machine, a []Val) Val { return slt(timeExt(a[1]), timeExt(a[0])) },
		"(time.Time).Equal": func(m *Machine, a []Val) Val {
			return m.intBin(token.EQL, timeExt(a[0]), timeExt(a[1]), true)
		},
		"(time.Time).Year": func(m *Machine, a []Val) Val {
			if y, ok := m.timeYear[timeExt(a[0]).T()]; ok {
				return y
			}
			return m.ex.NondetBV("year", 64)
		},
		"(time.Time).AddDate": func(m *Machine, a []Val) Val {
			ext := m.ex.NondetBV("adddate", 64)
			// whole years added to a time whose calendar year is known (a parsed two-digit year): month and day
			// are kept, the year moves by that many (time.AddDate contract; Feb 29 normalisation leaves the year alone)
			if y, ok := m.timeYear[timeExt(a[0]).T()]; ok {
				mo, d := a[2].(Int), a[3].(Int)
				if mo.IsC() && d.IsC() && mo.C == 0 && d.C == 0 {
					m.setTimeYear(ext, m.add(y, a[1].(Int)))
				}
			}
			return m.timeVal(1, ext)
		},
		"(time.Time).Format":  func(m *Machine, a []Val) Val { return m.ex.NondetStr("timefmt") },
		"(time.Time).UTC":     func(m *Machine, a []Val) Val { return a[0] },
		"time.Parse": func(m *Machine, a []Val) Val {
			if m.ex.Branch(m.ex.NondetBool("timeparse_ok")) {
				ext := m.ex.NondetBV("parsedtime", 64)
				// layout starting with the two-digit year "06": a successful parse read two decimal digits yy and
				// (documented rule of package time) yy >= 69 means 19yy, yy < 69 means 20yy
				if lay, ok := a[0].(Str); ok && lay.IsC() && strings.HasPrefix(lay.C, "06") {
					if v, ok := a[1].(Str); ok && (v.IsB || v.IsC()) {
						bs := m.strBytes(v)
						if len(bs) < 2 {
							m.ex.Assume(CB(false))
						} else {
							d0, d1 := m.resize(bs[0], 64, false), m.resize(bs[1], 64, false)
							for _, d := range []Int{d0, d1} {
								m.ex.Assume(Not(m.intBin(token.LSS, d, CI(64, '0'), false).(Bool)))
								m.ex.Assume(Not(m.intBin(token.GTR, d, CI(64, '9'), false).(Bool)))
							}
							yy := m.add(m.intBin(token.MUL, m.sub(d0, CI(64, '0')), CI(64, 10), false).(Int), m.sub(d1, CI(64, '0')))
							if m.ex.Branch(m.intBin(token.GEQ, yy, CI(64, 69), false).(Bool)) {
								m.setTimeYear(ext, m.add(yy, CI(64, 1900)))
							} else {
								m.setTimeYear(ext, m.add(yy, CI(64, 2000)))
							}
						}
					}
				}
				return Tuple{m.timeVal(1, ext), nilErr()}
			}
			return Tuple{m.timeVal(0, CI(64, 0)), m.newErr("time.Parse")}
		},
		"time.ParseDuration": func(m *Machine, a []Val) Val {
			s := a[0].(Str)
			if s.IsC() {
				if d, err := parseDuration(s.C); err == nil {
					return Tuple{CI(64, uint64(d)), nilErr()}
				}
				return Tuple{CI(64, 0), m.newErr("time.ParseDuration")}
			}
			if m.ex.Branch(m.ex.NondetBool("parseduration_ok")) {
				return Tuple{m.ufDur(s), nilErr()}
			}
			return Tuple{CI(64, 0), m.newErr("time.ParseDuration")}
		},
		"time.NewTicker":       func(m *Machine, a []Val) Val { return Ptr{C: m.newCell(Opaque{Name: "ticker"})} },
		"(*time.Ticker).Stop":  func(m *Machine, a []Val) Val { return nil },
		"(time.Duration).String": func(m *Machine, a []Val) Val { return Str{C: "<duration>"} },

		// ---- strings / strconv / filepath ----
		"strings.HasPrefix": func(m *Machine, a []Val) Val { return m.strHasPrefix(a[0].(Str), a[1].(Str)) },
		"strings.HasSuffix": func(m *Machine, a []Val) Val {
			s, p := a[0].(Str), a[1].(Str)
			if s.IsC() && p.IsC() {
				return CB(strings.HasSuffix(s.C, p.C))
			}
			return Bool{S: "(str.suffixof " + p.T() + " " + s.T() + ")"}
		},
		"strings.Contains": func(m *Machine, a []Val) Val {
			s, p := a[0].(Str), a[1].(Str)
			if s.IsC() && p.IsC() {
				return CB(strings.Contains(s.C, p.C))
			}
			return Bool{S: "(str.contains " + s.T() + " " + p.T() + ")"}
		},
		"strings.Replace": func(m *Machine, a []Val) Val {
			return Str{C: strings.Replace(concStr(m, a[0], "strings.Replace"), concStr(m, a[1], "strings.Replace"), concStr(m, a[2], "strings.Replace"), int(a[3].(Int).Signed()))}
		},
		"strings.ReplaceAll": func(m *Machine, a []Val) Val {
			return Str{C: strings.ReplaceAll(concStr(m, a[0], "strings.ReplaceAll"), concStr(m, a[1], "strings.ReplaceAll"), concStr(m, a[2], "strings.ReplaceAll"))}
		},
		"strings.Index": func(m *Machine, a []Val) Val {
			return CI(64, uint64(int64(strings.Index(concStr(m, a[0], "strings.Index"), concStr(m, a[1], "strings.Index")))))
		},
		"strings.LastIndex": func(m *Machine, a []Val) Val {
			return CI(64, uint64(int64(strings.LastIndex(concStr(m, a[0], "strings.LastIndex"), concStr(m, a[1], "strings.LastIndex")))))
		},
		"strings.TrimPrefix": func(m *Machine, a []Val) Val {
			return Str{C: strings.TrimPrefix(concStr(m, a[0], "strings.TrimPrefix"), concStr(m, a[1], "strings.TrimPrefix"))}
		},
		"strings.TrimSuffix": func(m *Machine, a []Val) Val {
			return Str{C: strings.TrimSuffix(concStr(m, a[0], "strings.TrimSuffix"), concStr(m, a[1], "strings.TrimSuffix"))}
		},
		"strings.Split": func(m *Machine, a []Val) Val {
			var out []Str
			for _, x := range strings.Split(concStr(m, a[0], "strings.Split"), concStr(m, a[1], "strings.Split")) {
				out = append(out, Str{C: x})
			}
			return m.mkStrSlice(out)
		},
		"strings.ToLower": func(m *Machine, a []Val) Val { return Str{C: strings.ToLower(concStr(m, a[0], "strings.ToLower"))} },
		"strings.ToUpper": func(m *Machine, a []Val) Val { return Str{C: strings.ToUpper(concStr(m, a[0], "strings.ToUpper"))} },
		"strings.TrimSpace": func(m *Machine, a []Val) Val {
			return Str{C: strings.TrimSpace(concStr(m, a[0], "strings.TrimSpace"))}
		},
		"strings.EqualFold": func(m *Machine, a []Val) Val {
			s, p := a[0].(Str), a[1].(Str)
			if s.IsC() && p.IsC() {
				return CB(strings.EqualFold(s.C, p.C))
			}
			// exact for digit/dot strings (OIDs); stated assumption for symbolic arguments
			return m.strEq(s, p)
		},
		"strings.Count": func(m *Machine, a []Val) Val {
			s, sub := a[0].(Str), a[1].(Str)
			if s.IsC() && sub.IsC() {
				return CI(64, uint64(strings.Count(s.C, sub.C)))
			}
			// stated assumption: symbolic argument values contain no line break
			m.ex.Assume(Bool{S: "(not (str.contains " + s.T() + " " + sub.T() + "))"})
			return CI(64, 0)
		},
		"strings.Join": func(m *Machine, a []Val) Val {
			sep := a[1].(Str)
			out := Str{}
			for i, c := range m.sliceElems(a[0]) {
				if i > 0 {
					out = m.strConcat(out, sep)
				}
				out = m.strConcat(out, c.V.(Str))
			}
			return out
		},
		"(*strings.Builder).WriteString": func(m *Machine, a []Val) Val {
			c := a[0].(Ptr).C
			m.sideStr[c] = m.strConcat(m.sideStr[c], a[1].(Str))
			return Tuple{m.strLen(a[1].(Str)), nilErr()}
		},
		"(*strings.Builder).Write": func(m *Machine, a []Val) Val {
			c := a[0].(Ptr).C
			sl := a[1].(Slice)
			m.sideStr[c] = m.strConcat(m.sideStr[c], m.bytesToStr(sl))
			return Tuple{sl.Len, nilErr()}
		},
		"(*strings.Builder).WriteByte": func(m *Machine, a []Val) Val {
			c := a[0].(Ptr).C
			b := a[1].(Int)
			if !b.IsC() {
				m.incon("Builder.WriteByte symbolic")
			}
			m.sideStr[c] = m.strConcat(m.sideStr[c], Str{C: string([]byte{byte(b.C)})})
			return nilErr()
		},
		"(*strings.Builder).String": func(m *Machine, a []Val) Val { return m.sideStr[a[0].(Ptr).C] },
		"(*strings.Builder).Len":    func(m *Machine, a []Val) Val { return m.strLen(m.sideStr[a[0].(Ptr).C]) },
		"(*strings.Builder).Grow": func(m *Machine, a []Val) Val {
			// the builder's buffer is real memory: account for it like a make([]byte, 0, n)
			n := m.resize(a[1].(Int), 64, true)
			m.noteAlloc(n)
			if m.allocBudget != nil {
				m.ex.Oblige(sle(n, *m.allocBudget), "alloc-not-backed-by-input (strings.Builder) in "+m.curFn())
			}
			return nil
		},
		"(*strings.Builder).Reset":  func(m *Machine, a []Val) Val { delete(m.sideStr, a[0].(Ptr).C); return nil },
		"strconv.ParseBool": func(m *Machine, a []Val) Val {
			s := a[0].(Str)
			for _, t := range []string{"1", "t", "T", "TRUE", "true", "True"} {
				if m.ex.Branch(m.strEq(s, Str{C: t})) {
					return Tuple{CB(true), nilErr()}
				}
			}
			for _, t := range []string{"0", "f", "F", "FALSE", "false", "False"} {
				if m.ex.Branch(m.strEq(s, Str{C: t})) {
					return Tuple{CB(false), nilErr()}
				}
			}
			return Tuple{CB(false), m.newErr("strconv.ParseBool")}
		},
		"strconv.Itoa": func(m *Machine, a []Val) Val {
			i := a[0].(Int)
			if i.IsC() {
				return Str{C: strconv.FormatInt(i.Signed(), 10)}
			}
			return m.ufBig(m.resize(i, bigW, true).T())
		},
		"path/filepath.Join": func(m *Machine, a []Val) Val {
			var parts []string
			sym := false
			var terms []Str
			for _, c := range m.sliceElems(a[0]) {
				s := c.V.(Str)
				terms = append(terms, s)
				if !s.IsC() {
					sym = true
				} else {
					parts = append(parts, s.C)
				}
			}
			if !sym {
				return Str{C: filepath.Join(parts...)}
			}
			out := Str{}
			for i, s := range terms {
				if i > 0 {
					out = m.strConcat(out, Str{C: "/"})
				}
				out = m.strConcat(out, s)
			}
			return out
		},
		"path/filepath.Clean": func(m *Machine, a []Val) Val {
			s := a[0].(Str)
			if s.IsC() {
				return Str{C: filepath.Clean(s.C)}
			}
			if _, ok := m.notes["decl:fpclean"]; !ok {
				m.ex.z.Send("(declare-fun fpclean (String) String)")
				m.notes["decl:fpclean"] = CB(true)
			}
			m.stubsRun["model: filepath.Clean(symbolic) = uninterpreted function"]++
			return Str{S: "(fpclean " + s.T() + ")"}
		},
		"path/filepath.Base": func(m *Machine, a []Val) Val { return Str{C: filepath.Base(concStr(m, a[0], "filepath.Base"))} },
		"path/filepath.Dir":  func(m *Machine, a []Val) Val { return Str{C: filepath.Dir(concStr(m, a[0], "filepath.Dir"))} },

		// ---- bytes ----
		"bytes.Compare": func(m *Machine, a []Val) Val {
			eq := m.bytesEqual(a[0].(Slice), a[1].(Slice))
			if eq.IsC() {
				if eq.C {
					return CI(64, 0)
				}
				return CI(64, 1)
			}
			return Int{W: 64, S: "(ite " + eq.S + " (_ bv0 64) (_ bv1 64))"}
		},
		"bytes.IndexByte": func(m *Machine, a []Val) Val {
			// first index i with b[i] == c, or -1 (forks over the position)
			sl, c := a[0].(Slice), a[1].(Int)
			ln := m.concretize(sl.Len, "bytes.IndexByte length")
			for i := uint64(0); i < ln.C; i++ {
				b := m.baSel(sl.B, m.add(sl.Off, CI(64, i)))
				if m.ex.Branch(m.intBin(token.EQL, b, c, false).(Bool)) {
					return CI(64, i)
				}
			}
			return CI(64, ^uint64(0))
		},
		"bytes.Equal": func(m *Machine, a []Val) Val { return m.bytesEqual(a[0].(Slice), a[1].(Slice)) },

		// ---- regexp (over-approximation: any verdict) ----
		"regexp.MustCompile": func(m *Machine, a []Val) Val {
			if p, ok := a[0].(Str); ok && p.IsC() {
				if _, err := regexp.Compile(p.C); err != nil {
					m.rtPanic("regexp.MustCompile: " + err.Error())
				}
				return Ptr{C: m.newCell(Opaque{Name: "regexp:" + p.C})}
			}
			return Ptr{C: m.newCell(Opaque{Name: "regexp"})}
		},
		"regexp.MatchString": func(m *Machine, a []Val) Val {
			p, s := a[0].(Str), a[1].(Str)
			if p.IsC() && s.IsC() {
				ok, err := regexp.MatchString(p.C, s.C)
				if err != nil {
					return Tuple{CB(false), m.newErr("regexp")}
				}
				return Tuple{CB(ok), nilErr()}
			}
			return Tuple{m.ex.NondetBool("regexp_match"), nilErr()}
		},
		"(*regexp.Regexp).MatchString": func(m *Machine, a []Val) Val {
			// exact when the pattern is known and ASCII-only (regex.go); otherwise any verdict
			if p, ok := a[0].(Ptr); ok && p.C != nil {
				if o, ok := p.C.V.(Opaque); ok && strings.HasPrefix(o.Name, "regexp:") {
					pat := o.Name[len("regexp:"):]
					s := a[1].(Str)
					if s.IsC() {
						return CB(regexp.MustCompile(pat).MatchString(s.C))
					}
					if s.IsB {
						if r, ok := m.symRegexMatch(pat, s.B); ok {
							m.stubsRun["regexp: exact NFA encoding of "+pat]++
							return r
						}
					}
				}
			}
			m.stubsRun["regexp: over-approximated (any verdict)"]++
			return m.ex.NondetBool("regexp_match")
		},

		// ---- misc ----
		"(encoding/asn1.ObjectIdentifier).String": func(m *Machine, a []Val) Val {
			var parts []string
			for _, c := range m.sliceElems(a[0]) {
				i := c.V.(Int)
				if !i.IsC() {
					m.incon("symbolic OID component")
				}
				parts = append(parts, strconv.FormatInt(i.Signed(), 10))
			}
			return Str{C: strings.Join(parts, ".")}
		},
		"(encoding/asn1.ObjectIdentifier).Equal": func(m *Machine, a []Val) Val {
			x, y := m.sliceElems(a[0]), m.sliceElems(a[1])
			if len(x) != len(y) {
				return CB(false)
			}
			r := CB(true)
			for i := range x {
				r = And(r, m.intBin(token.EQL, x[i].V.(Int), y[i].V.(Int), true).(Bool))
			}
			return r
		},
		"github.com/google/uuid.NewUUID": func(m *Machine, a []Val) Val {
			m.uuidCtr++
			ba := newByteArr(CI(64, 16))
			m.baSto(ba, CI(64, 0), CI(8, uint64(m.uuidCtr)))
			return Tuple{ba, nilErr()}
		},
		"(github.com/google/uuid.UUID).String": func(m *Machine, a []Val) Val {
			b := m.baSel(a[0].(*ByteArr), CI(64, 0))
			return Str{C: fmt.Sprintf("uuid%d", b.C)}
		},
		"github.com/caddyserver/caddy/v2.RegisterModule": func(m *Machine, a []Val) Val { return nil },
		"(*sync.Once).Do": func(m *Machine, a []Val) Val {
			c := a[0].(Ptr).C
			if _, done := m.sideStr[c]; done {
				return nil
			}
			m.sideStr[c] = Str{C: "done"}
			f := a[1].(Func)
			m.callFunction(f.Fn, nil, f.Env)
			return nil
		},
		"github.com/muesli/cache2go.Cache": func(m *Machine, a []Val) Val {
			// process-global registry of named tables (the package's own map is initialised by its init, which is not run)
			key := "cache2go:" + concStr(m, a[0], "cache2go.Cache")
			if v, ok := m.notes[key]; ok {
				return v
			}
			f := m.prog.ImportedPackage("github.com/muesli/cache2go")
			var v Val = Ptr{C: m.newCell(Opaque{Name: "cachetable"})}
			if f != nil {
				if t := f.Type("CacheTable"); t != nil {
					v = Ptr{C: m.newCell(m.zero(t.Type()))}
				}
			}
			m.notes[key] = v
			return v
		},
		// sha256.Sum256(data) = New(); Write(data); Sum(nil) - expressed through sha256.New so that the digest
		// model a harness installs for New also answers the one-shot form
		"crypto/sha256.Sum256": func(m *Machine, a []Val) Val {
			pkg := m.prog.ImportedPackage("crypto/sha256")
			if pkg == nil || pkg.Func("New") == nil {
				m.incon("crypto/sha256 not loaded")
			}
			h, ok := m.callFunction(pkg.Func("New"), nil, nil).(Iface)
			if !ok || h.T == nil {
				m.incon("sha256.New returned no hash")
			}
			method := func(name string, args ...Val) Val {
				sel := m.prog.MethodSets.MethodSet(h.T).Lookup(nil, name)
				if sel == nil {
					m.incon("hash without method " + name)
				}
				return m.callFunction(m.prog.MethodValue(sel), append([]Val{h.V}, args...), nil)
			}
			method("Write", a[0])
			sum := method("Sum", Slice{Nil: true, Off: CI(64, 0), Len: CI(64, 0), Cap: CI(64, 0)}).(Slice)
			out := newByteArr(CI(64, 32))
			for i := uint64(0); i < 32; i++ {
				m.baSto(out, CI(64, i), m.baSel(sum.B, m.add(sum.Off, CI(64, i))))
			}
			return out
		},
		// ---- internal/bytealg (assembly in the real runtime): exact on concrete arguments ----
		"internal/bytealg.IndexByteString": func(m *Machine, a []Val) Val {
			c := a[1].(Int)
			if !c.IsC() {
				m.incon("bytealg.IndexByteString: symbolic byte")
			}
			return CI(64, uint64(int64(strings.IndexByte(concStr(m, a[0], "bytealg.IndexByteString"), byte(c.C)))))
		},
		"internal/bytealg.IndexString": func(m *Machine, a []Val) Val {
			return CI(64, uint64(int64(strings.Index(concStr(m, a[0], "bytealg.IndexString"), concStr(m, a[1], "bytealg.IndexString")))))
		},
		"internal/bytealg.CountString": func(m *Machine, a []Val) Val {
			c := a[1].(Int)
			if !c.IsC() {
				m.incon("bytealg.CountString: symbolic byte")
			}
			return CI(64, uint64(strings.Count(concStr(m, a[0], "bytealg.CountString"), string([]byte{byte(c.C)}))))
		},
		"internal/bytealg.LastIndexByteString": func(m *Machine, a []Val) Val {
			c := a[1].(Int)
			if !c.IsC() {
				m.incon("bytealg.LastIndexByteString: symbolic byte")
			}
			return CI(64, uint64(int64(strings.LastIndexByte(concStr(m, a[0], "bytealg.LastIndexByteString"), byte(c.C)))))
		},
		// []byte variants: exact when the bytes are concrete
		"internal/bytealg.Index": func(m *Machine, a []Val) Val {
			x, y := m.bytesToStr(a[0].(Slice)), m.bytesToStr(a[1].(Slice))
			return CI(64, uint64(int64(strings.Index(concStr(m, x, "bytealg.Index"), concStr(m, y, "bytealg.Index")))))
		},
		"internal/bytealg.IndexByte": func(m *Machine, a []Val) Val {
			c := a[1].(Int)
			if !c.IsC() {
				m.incon("bytealg.IndexByte: symbolic byte")
			}
			return CI(64, uint64(int64(strings.IndexByte(concStr(m, m.bytesToStr(a[0].(Slice)), "bytealg.IndexByte"), byte(c.C)))))
		},
		"internal/bytealg.Count": func(m *Machine, a []Val) Val {
			c := a[1].(Int)
			if !c.IsC() {
				m.incon("bytealg.Count: symbolic byte")
			}
			return CI(64, uint64(strings.Count(concStr(m, m.bytesToStr(a[0].(Slice)), "bytealg.Count"), string([]byte{byte(c.C)}))))
		},
		"internal/bytealg.LastIndexByte": func(m *Machine, a []Val) Val {
			c := a[1].(Int)
			if !c.IsC() {
				m.incon("bytealg.LastIndexByte: symbolic byte")
			}
			return CI(64, uint64(int64(strings.LastIndexByte(concStr(m, m.bytesToStr(a[0].(Slice)), "bytealg.LastIndexByte"), byte(c.C)))))
		},
		"internal/bytealg.Equal": func(m *Machine, a []Val) Val { return m.bytesEqual(a[0].(Slice), a[1].(Slice)) },
		"internal/stringslite.Index": func(m *Machine, a []Val) Val {
			return CI(64, uint64(int64(strings.Index(concStr(m, a[0], "stringslite.Index"), concStr(m, a[1], "stringslite.Index")))))
		},
		"internal/stringslite.IndexByte": func(m *Machine, a []Val) Val {
			c := a[1].(Int)
			if !c.IsC() {
				m.incon("stringslite.IndexByte: symbolic byte")
			}
			return CI(64, uint64(int64(strings.IndexByte(concStr(m, a[0], "stringslite.IndexByte"), byte(c.C)))))
		},
		// zap is a no-op in the engine, but a logger still has a core one can ask for its level
		"(*go.uber.org/zap.Logger).Core": func(m *Machine, a []Val) Val {
			pkg := m.prog.ImportedPackage("go.uber.org/zap/zapcore")
			if pkg == nil || pkg.Func("NewNopCore") == nil {
				m.incon("zapcore not loaded")
			}
			return m.callFunction(pkg.Func("NewNopCore"), nil, nil)
		},
		"runtime.Gosched": func(m *Machine, a []Val) Val { return nil },
		"os.Getenv":       func(m *Machine, a []Val) Val { return Str{} },
		"bufio.NewReader": func(m *Machine, a []Val) Val {
			sz := 4096
			if v, ok := m.cfg.Params["bufio"]; ok {
				sz = v
			}
			f := m.prog.ImportedPackage("bufio").Func("NewReaderSize")
			return m.callFunction(f, []Val{a[0], CI(64, uint64(sz))}, nil)
		},
	}
}

func (m *Machine) bytesEqual(x, y Slice) Bool {
	if x.B != nil && y.B != nil && x.B.Org != nil && y.B.Org != nil && x.Off.IsC() && y.Off.IsC() && x.Off.C == 0 && y.Off.C == 0 &&
		x.Len.IsC() && y.Len.IsC() && x.Len.C == y.Len.C && x.B.Cap.IsC() && x.B.Cap.C == x.Len.C && y.B.Cap.IsC() && y.B.Cap.C == y.Len.C {
		// both buffers hold values of the same injective hash
		return m.strEq(*x.B.Org, *y.B.Org)
	}
	if x.B == nil || y.B == nil {
		xe := x.B == nil && (x.Len.IsC() && x.Len.C == 0)
		ye := y.B == nil && (y.Len.IsC() && y.Len.C == 0)
		if xe && ye {
			return CB(true)
		}
		if xe {
			return m.intBin(token.EQL, y.Len, CI(64, 0), true).(Bool)
		}
		if ye {
			return m.intBin(token.EQL, x.Len, CI(64, 0), true).(Bool)
		}
	}
	xl, yl := m.concretizeSmall(x.Len), m.concretizeSmall(y.Len)
	if !xl.IsC() || !yl.IsC() {
		m.incon("bytes.Equal with large symbolic lengths")
	}
	if xl.C != yl.C {
		return CB(false)
	}
	r := CB(true)
	for i := uint64(0); i < xl.C; i++ {
		a := m.baSel(x.B, m.add(x.Off, CI(64, i)))
		b := m.baSel(y.B, m.add(y.Off, CI(64, i)))
		r = And(r, m.intBin(token.EQL, a, b, false).(Bool))
	}
	return r
}

func (m *Machine) now() Int {
	if _, fixed := m.notes["fixednow"]; fixed {
		return *m.nowLast
	}
	t := m.ex.NondetBV("now", 64)
	if m.nowLast != nil {
		m.ex.Assume(sle(*m.nowLast, t))
	} else {
		m.ex.Assume(sle(CI(64, 1), t))
	}
	// stay far from int64 overflow (year 2262): instants below 2^61 ns
	m.ex.Assume(slt(t, CI(64, 1<<61)))
	m.nowLast = &t
	return t
}

// ufBig: injective uninterpreted function BV128 -> String standing for (*big.Int).String().
// The axioms (digits only, injective) are only sent to the solver when a string built from it
// is actually compared through the string theory (strEq falls back from the structural decision).
func (m *Machine) ufBig(t string) Str {
	if _, ok := m.notes["decl:bigstr"]; !ok {
		m.ex.z.Send(fmt.Sprintf("(declare-fun bigstr ((_ BitVec %d)) String)", bigW))
		m.notes["decl:bigstr"] = CB(true)
	}
	nm := m.ex.Name("bigs", "String", "(bigstr "+t+")")
	m.pendingAx = append(m.pendingAx, "(assert (str.in_re "+nm+" (re.++ (re.opt (str.to_re \"-\")) (re.+ (re.range \"0\" \"9\")))))")
	prev, _ := m.notes["bigstr"].([]string)
	for _, u := range prev {
		if u != t {
			m.pendingAx = append(m.pendingAx, "(assert (=> (not (= "+t+" "+u+")) (not (= (bigstr "+t+") (bigstr "+u+")))))")
		}
	}
	m.notes["bigstr"] = append(prev, t)
	return Str{S: nm, P: []strPart{{Big: t}}}
}

// ufHex: injective uninterpreted function standing for hex.EncodeToString(x.Bytes()) of a non-negative value.
func (m *Machine) ufHex(t string) Str {
	if _, ok := m.notes["decl:bighex"]; !ok {
		m.ex.z.Send(fmt.Sprintf("(declare-fun bighex ((_ BitVec %d)) String)", bigW))
		m.notes["decl:bighex"] = CB(true)
	}
	nm := m.ex.Name("bigh", "String", "(bighex "+t+")")
	m.pendingAx = append(m.pendingAx, "(assert (str.in_re "+nm+" (re.* (re.union (re.range \"0\" \"9\") (re.range \"a\" \"f\")))))")
	prev, _ := m.notes["bighex"].([]string)
	for _, u := range prev {
		if u != t {
			m.pendingAx = append(m.pendingAx, "(assert (=> (not (= "+t+" "+u+")) (not (= (bighex "+t+") (bighex "+u+")))))")
		}
	}
	m.notes["bighex"] = append(prev, t)
	return Str{S: nm, P: []strPart{{Big: t, Hex: true}}}
}

func (m *Machine) flushAxioms() {
	for _, a := range m.pendingAx {
		m.ex.z.Send(a)
	}
	m.pendingAx = nil
}

func (m *Machine) ufStr(name string, s Str) Str {
	key := "uf:" + name
	if _, ok := m.notes[key]; !ok {
		m.ex.z.Send("(declare-fun " + name + " (String) String)")
	}
	prev, _ := m.notes[key].([]string)
	t := s.T()
	for _, u := range prev {
		m.ex.z.Send("(assert (=> (not (= " + t + " " + u + ")) (not (= (" + name + " " + t + ") (" + name + " " + u + ")))))")
	}
	m.notes[key] = append(prev, t)
	return Str{S: "(" + name + " " + t + ")"}
}

func (m *Machine) ufDur(s Str) Int {
	if _, ok := m.notes["uf:dur"]; !ok {
		m.ex.z.Send("(declare-fun durval (String) (_ BitVec 64))")
		m.notes["uf:dur"] = CB(true)
	}
	return Int{W: 64, S: "(durval " + s.T() + ")"}
}

func parseDuration(s string) (int64, error) {
	d, err := time.ParseDuration(s)
	return int64(d), err
}

func (m *Machine) acquired(c *Cell, ls *lockState, write bool) {
	for _, h := range m.heldOrder {
		if h != c {
			hn, cn := m.locks[h].name, ls.name
			m.lockOrder = append(m.lockOrder, hn+"->"+cn)
		}
	}
	m.heldOrder = append(m.heldOrder, c)
	if m.trace != nil {
		m.trace.lockEvent(m, c, ls, true, write)
	}
}

func (m *Machine) released(c *Cell, ls *lockState, write bool) {
	for i := len(m.heldOrder) - 1; i >= 0; i-- {
		if m.heldOrder[i] == c {
			m.heldOrder = append(append([]*Cell{}, m.heldOrder[:i]...), m.heldOrder[i+1:]...)
			break
		}
	}
	if m.trace != nil {
		m.trace.lockEvent(m, c, ls, false, write)
	}
	m.afterRelease(c)
}

var _ = types.Typ

var (
	fnIndexOnce sync.Once
	fnIndex     map[string]bool
)

func (m *Machine) functionExists(name string) bool {
	fnIndexOnce.Do(func() {
		fnIndex = map[string]bool{}
		for f := range ssautil.AllFunctions(m.prog) {
			fnIndex[f.String()] = true
			if o := f.Origin(); o != nil {
				fnIndex[o.String()] = true
			}
		}
	})
	return fnIndex[name]
}

// ---- two operations: the running one (thread 0) and an interleaved one (thread 1, a coroutine) ----
//
// maybePreempt: called before every lock acquisition attempt (and at every Yield) of thread 0. At its
// k-th such point the registered operation B starts running as thread 1. B runs until it returns or
// until it needs a lock thread 0 holds; then thread 0 continues, and B is resumed the moment that
// lock is released (or when thread 0's operation has returned). So B either completes at the switch
// point or waits there exactly as long as it has to. If thread 0 in turn needs a lock the waiting B
// holds, the two wait for each other: a deadlock (lock-order inversion), reported as a violation.

type coKill struct{}

type coMsg struct {
	kind int // 0 done, 1 blocked, 2 panic
	pan  interface{}
	lock *Cell
}

type threadCtx struct {
	frames    []*frame
	callStack []string
	depth     int
	heldOrder []*Cell
	curPanic  *goPanic
	trace     *OpTrace
}

type coroutine struct {
	resume    chan bool
	yield     chan coMsg
	done      bool
	blockedOn *Cell
	ctx       threadCtx
}

func (m *Machine) saveCtx() threadCtx {
	return threadCtx{m.frames, m.callStack, m.depth, m.heldOrder, m.curPanic, m.trace}
}
func (m *Machine) loadCtx(c threadCtx) {
	m.frames, m.callStack, m.depth, m.heldOrder, m.curPanic, m.trace = c.frames, c.callStack, c.depth, c.heldOrder, c.curPanic, c.trace
}

func (m *Machine) maybePreempt() {
	if m.preemptFn == nil || m.cur != 0 || m.co != nil {
		return
	}
	k := m.lockAcq
	m.lockAcq++
	if k != m.preemptAt {
		return
	}
	f := *m.preemptFn
	m.preemptRan = true
	m.startCo(func() { m.callFunction(f.Fn, nil, f.Env) })
}

// startCo starts body as thread 1 and runs it until it returns, waits for a lock, or pauses.
func (m *Machine) startCo(body func()) {
	co := &coroutine{resume: make(chan bool), yield: make(chan coMsg)}
	m.co = co
	go func() {
		if !<-co.resume {
			return
		}
		defer func() {
			r := recover()
			if _, killed := r.(coKill); killed {
				return
			}
			if r != nil {
				co.yield <- coMsg{kind: 2, pan: r}
				return
			}
			co.yield <- coMsg{kind: 0}
		}()
		body()
	}()
	m.switchToB()
}

// switchToB hands the processor to thread 1 until it returns, blocks or fails.
func (m *Machine) switchToB() {
	co := m.co
	saved := m.saveCtx()
	m.loadCtx(co.ctx)
	m.cur = 1
	co.blockedOn = nil
	co.resume <- true
	msg := <-co.yield
	co.ctx = m.saveCtx()
	m.loadCtx(saved)
	m.cur = 0
	switch msg.kind {
	case 0:
		co.done = true
		for _, ls := range m.locks {
			if (ls.writer && ls.wBy == 1) || ls.rdBy[1] > 0 {
				m.ex.Fail("lock-leak: the interleaved operation returned holding " + ls.name)
			}
		}
	case 1:
		co.blockedOn = msg.lock
	case 2:
		co.done = true
		panic(msg.pan)
	case 3: // paused in a long environment call: runnable whenever the other thread cannot go on
	}
}

// killCo ends a coroutine that is still parked when the path is over.
func (m *Machine) killCo() {
	if m.co != nil && !m.co.done {
		m.co.done = true
		select {
		case m.co.resume <- false:
		default:
		}
	}
}

// waitForOther: the current thread needs a lock the other thread holds.
func (m *Machine) waitForOther(c *Cell, ls *lockState) {
	if m.cur == 1 {
		// the interleaved operation waits; the suspended one goes on until it releases the lock
		m.co.yield <- coMsg{kind: 1, lock: c}
		if !<-m.co.resume {
			panic(coKill{})
		}
		return
	}
	if m.co != nil && !m.co.done && m.co.blockedOn == nil {
		// the other thread is merely paused (long I/O) while holding the lock: it goes on now
		m.switchToB()
		return
	}
	if m.co != nil && !m.co.done && m.co.blockedOn != nil {
		m.ex.Fail("deadlock: lock-order inversion - one operation holds " + ls.name + " and waits for " + m.locks[m.co.blockedOn].name + ", the other one holds that and waits for " + ls.name + ", in " + m.where())
	}
	m.ex.Fail("deadlock:Lock of a lock already held (" + ls.name + ") in " + m.where())
}

// lockWrite: exclusive acquisition with waiting.
func (m *Machine) lockWrite(c *Cell, ls *lockState, kind string) {
	for ls.writer || ls.readers > 0 {
		if (ls.writer && ls.wBy == m.cur) || ls.rdBy[m.cur] > 0 {
			m.ex.Fail("deadlock:Lock of a " + kind + " already held by the same goroutine (" + ls.name + ") in " + m.where())
		}
		m.waitForOther(c, ls)
	}
	ls.writer, ls.wBy = true, m.cur
	m.acquired(c, ls, true)
}

// afterRelease: thread 0 released a lock; if thread 1 waits for it and can have it now, it runs.
func (m *Machine) afterRelease(c *Cell) {
	if m.cur != 0 || m.co == nil || m.co.done || m.co.blockedOn != c {
		return
	}
	m.switchToB()
}

// finishCo: thread 0's operation has returned; a waiting thread 1 runs to its end now.
func (m *Machine) finishCo() {
	for m.co != nil && !m.co.done {
		if b := m.co.blockedOn; b != nil {
			if ls := m.locks[b]; ls != nil && ((ls.writer && ls.wBy == 0) || ls.rdBy[0] > 0) {
				m.ex.Fail("deadlock: the interleaved operation waits for " + ls.name + ", which the finished operation never released")
			}
		}
		m.switchToB()
	}
}

// renderArg renders one fmt argument for the verbs %s %v %d (strings, integers, big integers and
// fmt.Stringer values of the code under test are what keys and identifiers are built from).
func (m *Machine) renderArg(v Val, verb byte) (Str, bool) {
	if i, ok := v.(Iface); ok {
		if i.V == nil && i.T == nil {
			return Str{C: "<nil>"}, verb == 'v'
		}
		// a *big.Int prints through its String method
		if p, ok := i.V.(Ptr); ok && p.C != nil {
			if b, ok := p.C.V.(Big); ok {
				if b.V != nil {
					return Str{C: b.V.String()}, true
				}
				return m.ufBig(b.T), true
			}
		}
		if i.T != nil && (verb == 's' || verb == 'v') {
			if sel := m.prog.MethodSets.MethodSet(i.T).Lookup(nil, "String"); sel == nil {
				// no Stringer: fall through to the basic kinds
			} else if fn := m.prog.MethodValue(sel); fn != nil && fn.Signature.Params().Len() == 0 && fn.Signature.Results().Len() == 1 {
				if r, ok := m.callFunction(fn, []Val{i.V}, nil).(Str); ok {
					return r, true
				}
			}
		}
		v = i.V
	}
	switch x := v.(type) {
	case Str:
		if verb == 's' || verb == 'v' {
			return x, true
		}
	case Int:
		if (verb == 'd' || verb == 'v') && x.IsC() {
			if x.W == 64 {
				return Str{C: strconv.FormatInt(x.Signed(), 10)}, true
			}
			return Str{C: strconv.FormatUint(x.C, 10)}, true
		}
	case Bool:
		if x.IsC() && (verb == 'v' || verb == 't') {
			return Str{C: strconv.FormatBool(x.C)}, true
		}
	}
	return Str{}, false
}

// sprintf: exact for formats made of literal text and %s %v %d %% with renderable arguments; anything
// else (widths, %x, %q, structs, errors ...) yields the opaque message constant used for log and error texts.
func (m *Machine) sprintf(a []Val) Val {
	opaque := Str{C: "<sprintf>"}
	f, ok := a[0].(Str)
	if !ok || !f.IsC() {
		return opaque
	}
	args := m.sliceElems(a[1])
	out := Str{}
	lit := ""
	ai := 0
	for i := 0; i < len(f.C); i++ {
		c := f.C[i]
		if c != '%' {
			lit += string(c)
			continue
		}
		if i+1 >= len(f.C) {
			return opaque
		}
		i++
		verb := f.C[i]
		if verb == '%' {
			lit += "%"
			continue
		}
		if (verb != 's' && verb != 'v' && verb != 'd') || ai >= len(args) {
			return opaque
		}
		r, ok := m.renderArg(args[ai].V, verb)
		ai++
		if !ok {
			return opaque
		}
		out = m.strConcat(m.strConcat(out, Str{C: lit}), r)
		lit = ""
	}
	if ai != len(args) {
		return opaque
	}
	return m.strConcat(out, Str{C: lit})
}
