package main

import (
	"fmt"
	"go/token"
	"go/types"
	"unicode/utf8"

	"golang.org/x/tools/go/ssa"
)

func (m *Machine) indexAddr(x Val, idx Int) Val {
	idx = m.resize(idx, 64, true)
	switch s := x.(type) {
	case Slice:
		m.rtOblige(And(sle(CI(64, 0), idx), slt(idx, s.Len)), "index-out-of-range")
		if s.B != nil {
			return Ptr{BA: s.B, Idx: m.add(s.Off, idx)}
		}
		if s.A == nil {
			m.rtPanic("index-out-of-range")
		}
		o := m.add(s.Off, idx)
		o = m.concretize(o, "slice index")
		return Ptr{C: s.A.E[o.C]}
	case Ptr:
		m.nilCheck(s, "indexaddr")
		switch a := s.C.V.(type) {
		case *ByteArr:
			m.rtOblige(And(sle(CI(64, 0), idx), slt(idx, a.Cap)), "index-out-of-range")
			return Ptr{BA: a, Idx: idx}
		case *Array:
			m.rtOblige(And(sle(CI(64, 0), idx), slt(idx, CI(64, uint64(len(a.E))))), "index-out-of-range")
			idx = m.concretize(idx, "array index")
			return Ptr{C: a.E[idx.C]}
		}
	}
	m.incon(fmt.Sprintf("indexAddr on %T", x))
	return nil
}

// concretize forks over the feasible values of a symbolic integer (solver-enumerated).
func (m *Machine) concretize(v Int, what string) Int {
	if v.IsC() {
		return v
	}
	k, ok := m.ex.ConcretizeBV(v.S, v.W)
	if !ok {
		m.incon("symbolic " + what + " not concretizable")
	}
	return CI(v.W, k)
}

// structured: the buffer has engine-tracked content (not a pristine symbolic input array)
func structured(b *ByteArr) bool { return b != nil && (len(b.Known) > 0 || b.Zero) }

func (m *Machine) index(x Val, idx Int) Val {
	idx = m.resize(idx, 64, true)
	switch a := x.(type) {
	case *Array:
		m.rtOblige(And(sle(CI(64, 0), idx), slt(idx, CI(64, uint64(len(a.E))))), "index-out-of-range")
		idx = m.concretize(idx, "array index")
		return m.copyVal(a.E[idx.C].V)
	case *ByteArr:
		m.rtOblige(And(sle(CI(64, 0), idx), slt(idx, a.Cap)), "index-out-of-range")
		return m.baSel(a, idx)
	case Str:
		return m.strIndex(a, idx)
	}
	m.incon(fmt.Sprintf("index on %T", x))
	return nil
}

func (m *Machine) strIndex(s Str, idx Int) Val {
	if s.IsB {
		m.rtOblige(And(sle(CI(64, 0), idx), slt(idx, CI(64, uint64(len(s.B))))), "index-out-of-range")
		idx = m.concretize(idx, "string index")
		return s.B[idx.C]
	}
	if s.IsC() {
		m.rtOblige(And(sle(CI(64, 0), idx), slt(idx, CI(64, uint64(len(s.C))))), "index-out-of-range")
		if idx.IsC() {
			return CI(8, uint64(s.C[idx.C]))
		}
		if len(s.C) <= 64 {
			// table lookup with a symbolic index: one ite chain, no fork
			t := CI(8, uint64(s.C[len(s.C)-1])).T()
			for i := len(s.C) - 2; i >= 0; i-- {
				t = "(ite (= " + idx.S + " " + CI(64, uint64(i)).T() + ") " + CI(8, uint64(s.C[i])).T() + " " + t + ")"
			}
			return Int{W: 8, S: m.ex.Name("tbl", "(_ BitVec 8)", t)}
		}
		idx = m.concretize(idx, "string index")
		return CI(8, uint64(s.C[idx.C]))
	}
	// SMT string
	var it string
	if idx.IsC() {
		it = fmt.Sprintf("%d", idx.C)
	} else if idx.N != "" {
		it = idx.N
	} else {
		it = "(bv2nat " + idx.S + ")"
	}
	m.rtOblige(Bool{S: "(and (<= 0 " + it + ") (< " + it + " (str.len " + s.S + ")))"}, "index-out-of-range")
	return Int{W: 8, S: "((_ int2bv 8) (str.to_code (str.at " + s.S + " " + it + ")))"}
}

// --- maps ---

func (m *Machine) keyEq(a, b Val) Bool {
	switch x := a.(type) {
	case Str:
		return m.strEq(x, b.(Str))
	case Int:
		return m.intBin(token.EQL, x, b.(Int), false).(Bool)
	case Bool:
		y := b.(Bool)
		if x.IsC() && y.IsC() {
			return CB(x.C == y.C)
		}
		return Bool{S: "(= " + x.T() + " " + y.T() + ")"}
	case Ptr:
		y := b.(Ptr)
		return CB(x.C == y.C && x.BA == y.BA)
	case Iface:
		return m.ifaceEqSym(x, b.(Iface))
	case Struct:
		y := b.(Struct)
		r := CB(true)
		for i := range x.F {
			r = And(r, m.keyEq(x.F[i].V, y.F[i].V))
		}
		return r
	}
	m.incon(fmt.Sprintf("map key of type %T", a))
	return CB(false)
}

func (m *Machine) mapFind(mo *MapObj, k Val) *Cell {
	for i := range mo.E {
		if m.ex.Branch(m.keyEq(mo.E[i].K, k)) {
			return mo.E[i].V
		}
	}
	return nil
}

func (m *Machine) lookup(x Val, k Val, commaOk bool, t types.Type) Val {
	if s, ok := x.(Str); ok {
		return m.strIndex(s, m.resize(k.(Int), 64, true))
	}
	mp := x.(Map)
	var vt types.Type
	if commaOk {
		vt = t.(*types.Tuple).At(0).Type()
	} else {
		vt = t
	}
	var c *Cell
	if mp.M != nil {
		if m.trace != nil {
			m.trace.accessMap(m, mp.M, false)
		}
		c = m.mapFind(mp.M, k)
	}
	var v Val
	if c != nil {
		v = m.copyVal(c.V)
	} else {
		v = m.zero(vt)
	}
	if commaOk {
		return Tuple{v, CB(c != nil)}
	}
	return v
}

func (m *Machine) mapUpdate(x Val, k, v Val) {
	mp := x.(Map)
	if mp.M == nil {
		m.rtPanic("assignment to entry in nil map")
	}
	if m.trace != nil {
		m.trace.accessMap(m, mp.M, true)
	}
	if c := m.mapFind(mp.M, k); c != nil {
		c.V = m.copyVal(v)
		return
	}
	mp.M.E = append(mp.M.E, mapEntry{K: k, V: m.newCell(m.copyVal(v))})
}

func (m *Machine) mapDelete(x Val, k Val) {
	mp := x.(Map)
	if mp.M == nil {
		return
	}
	if m.trace != nil {
		m.trace.accessMap(m, mp.M, true)
	}
	for i := range mp.M.E {
		if m.ex.Branch(m.keyEq(mp.M.E[i].K, k)) {
			mp.M.E = append(append([]mapEntry{}, mp.M.E[:i]...), mp.M.E[i+1:]...)
			return
		}
	}
}

func (m *Machine) rangeOp(x Val) Val {
	switch v := x.(type) {
	case Map:
		it := &Iter{}
		if v.M != nil {
			if m.trace != nil {
				m.trace.accessMap(m, v.M, false)
			}
			it.M = v.M
			it.Keys = append([]mapEntry{}, v.M.E...)
			// iteration order of a Go map is unspecified: the starting rotation and direction are free choices
			if n := len(it.Keys); n > 1 && m.cfg.MapOrders {
				ch := m.ex.Choose(2 * n)
				rot, rev := ch%n, ch >= n
				ks := make([]mapEntry, n)
				for i := range ks {
					j := (i + rot) % n
					if rev {
						j = (n - 1 - i + rot) % n
					}
					ks[i] = it.Keys[j]
				}
				it.Keys = ks
			}
		}
		return it
	case Str:
		if v.IsB {
			return &Iter{S: v}
		}
		if !v.IsC() {
			m.incon("range over symbolic string")
		}
		return &Iter{S: v}
	}
	m.incon(fmt.Sprintf("range over %T", x))
	return nil
}

func (m *Machine) nextOp(x *ssa.Next, it *Iter) Val {
	if x.IsString && it.S.IsB {
		return m.nextRuneSym(it)
	}
	if x.IsString {
		if it.Pos >= len(it.S.C) {
			return Tuple{CB(false), CI(64, 0), CI(32, 0)}
		}
		r, sz := utf8.DecodeRuneInString(it.S.C[it.Pos:])
		p := it.Pos
		it.Pos += sz
		return Tuple{CB(true), CI(64, uint64(p)), CI(32, uint64(r))}
	}
	tt := x.Type().(*types.Tuple)
	for it.Pos < len(it.Keys) {
		e := it.Keys[it.Pos]
		it.Pos++
		// skip entries deleted during iteration
		live := false
		for _, cur := range it.M.E {
			if cur.V == e.V {
				live = true
			}
		}
		if !live {
			continue
		}
		return Tuple{CB(true), e.K, m.copyVal(e.V.V)}
	}
	return Tuple{CB(false), m.zero(tt.At(1).Type()), m.zero(tt.At(2).Type())}
}

// --- slices ---

func (m *Machine) makeSlice(t types.Type, ln, cp Int) Val {
	ln, cp = m.resize(ln, 64, true), m.resize(cp, 64, true)
	same := ln.S == cp.S && ln.C == cp.C
	ln = m.concretizeSmall(ln)
	if same {
		cp = ln
	} else {
		cp = m.concretizeSmall(cp)
	}
	et := t.Underlying().(*types.Slice).Elem()
	m.rtOblige(And(sle(CI(64, 0), ln), sle(ln, cp)), "makeslice-len-out-of-range")
	if m.allocBudget != nil && isByte(et) {
		m.ex.Oblige(sle(cp, *m.allocBudget), "alloc-not-backed-by-input in "+m.curFn())
	} else {
		m.rtOblige(sle(cp, CI(64, 1<<47)), "makeslice-len-out-of-range")
	}
	if isByte(et) {
		m.noteAlloc(cp)
		return Slice{B: newByteArr(cp), Off: CI(64, 0), Len: ln, Cap: cp}
	}
	if !cp.IsC() {
		cp = m.concretize(cp, "non-byte slice capacity")
		if same {
			ln = cp
		}
	}
	if !ln.IsC() {
		ln = m.concretize(ln, "non-byte slice length")
	}
	if cp.C > 1<<16 {
		m.incon("huge non-byte slice")
	}
	a := &Array{E: make([]*Cell, cp.C)}
	for i := range a.E {
		a.E[i] = m.newCell(m.zero(et))
	}
	return Slice{A: a, Off: CI(64, 0), Len: ln, Cap: cp}
}

func (m *Machine) sliceOp(fr *frame, x *ssa.Slice) Val {
	base := m.get(fr, x.X)
	var lo, hi, mx *Int
	gi := func(v ssa.Value) *Int {
		if v == nil {
			return nil
		}
		i := m.resize(m.get(fr, v).(Int), 64, true)
		return &i
	}
	lo, hi, mx = gi(x.Low), gi(x.High), gi(x.Max)
	if st, ok := base.(Str); ok {
		return m.strSlice(st, lo, hi)
	}
	var s Slice
	switch b := base.(type) {
	case Slice:
		s = b
	case Ptr:
		m.nilCheck(b, "slice")
		switch a := b.C.V.(type) {
		case *ByteArr:
			s = Slice{B: a, Off: CI(64, 0), Len: a.Cap, Cap: a.Cap}
		case *Array:
			n := CI(64, uint64(len(a.E)))
			s = Slice{A: a, Off: CI(64, 0), Len: n, Cap: n}
		default:
			m.incon(fmt.Sprintf("slice of pointer to %T", b.C.V))
		}
	default:
		m.incon(fmt.Sprintf("slice of %T", base))
	}
	l, h, mxv := CI(64, 0), s.Len, s.Cap
	if lo != nil {
		l = *lo
	}
	if hi != nil {
		h = *hi
	}
	if mx != nil {
		mxv = *mx
	}
	m.rtOblige(And(And(sle(CI(64, 0), l), sle(l, h)), And(sle(h, mxv), sle(mxv, s.Cap))), "slice-bounds-out-of-range")
	if structured(s.B) && s.B.Cap.IsC() && !m.keepSymBounds {
		// symbolic offsets into structured buffers are case-split (cheap concrete paths instead of
		// symbolic-index selects over long store chains)
		if !l.IsC() {
			l = m.concretize(l, "slice low bound")
		}
		if !h.IsC() && hi != nil {
			h = m.concretize(h, "slice high bound")
		}
	}
	return Slice{A: s.A, B: s.B, Off: m.add(s.Off, l), Len: m.sub(h, l), Cap: m.sub(mxv, l), Nil: s.Nil && s.B == nil && s.A == nil}
}

const copyUnroll = 64

func (m *Machine) copyBytes(dst Slice, srcv Val) Val {
	if st, ok := srcv.(Str); ok {
		srcv = m.strToBytes(st)
	}
	src, ok := srcv.(Slice)
	if !ok {
		m.incon("copy from non-slice")
	}
	if dst.B == nil || src.B == nil {
		if (dst.B == nil && dst.A == nil) || (src.B == nil && src.A == nil) {
			return CI(64, 0)
		}
		if dst.A != nil && src.A != nil && dst.Len.IsC() && src.Len.IsC() && dst.Off.IsC() && src.Off.IsC() {
			n := dst.Len.C
			if src.Len.C < n {
				n = src.Len.C
			}
			tmp := make([]Val, n)
			for i := uint64(0); i < n; i++ {
				tmp[i] = m.copyVal(src.A.E[src.Off.C+i].V)
			}
			for i := uint64(0); i < n; i++ {
				m.assignInto(dst.A.E[dst.Off.C+i], tmp[i])
			}
			return CI(64, n)
		}
		m.incon("copy of non-byte slices")
	}
	var n Int
	if dst.Len.IsC() && src.Len.IsC() {
		n = dst.Len
		if src.Len.C < n.C {
			n = src.Len
		}
	} else {
		n = Int{W: 64, S: m.ex.Name("n", "(_ BitVec 64)", "(ite (bvsle "+dst.Len.T()+" "+src.Len.T()+") "+dst.Len.T()+" "+src.Len.T()+")")}
	}
	if n.IsC() {
		if n.C == 0 {
			return n
		}
		if dst.Off.IsC() && src.Off.IsC() {
			tmp := make([]Int, n.C)
			for i := uint64(0); i < n.C; i++ {
				tmp[i] = m.baSel(src.B, CI(64, src.Off.C+i))
			}
			for i := uint64(0); i < n.C; i++ {
				m.baSto(dst.B, CI(64, dst.Off.C+i), tmp[i])
			}
			return n
		}
		srcT := m.baTerm(src.B)
		t := m.baTerm(dst.B)
		for i := uint64(0); i < n.C; i++ {
			ii := CI(64, i)
			t = "(store " + t + " " + m.add(dst.Off, ii).T() + " (select " + srcT + " " + m.add(src.Off, ii).T() + "))"
			if i%16 == 15 {
				t = m.ex.Name("arr", arrSort, t)
			}
		}
		m.baSetTerm(dst.B, m.ex.Name("arr", arrSort, t))
		return n
	}
	bound := uint64(copyUnroll)
	for _, l := range []Int{dst.Len, src.Len, dst.B.Cap, src.B.Cap} {
		if l.IsC() && l.C < bound {
			bound = l.C
		}
	}
	if bound <= 256 {
		// n = min(len dst, len src) <= bound: case-split, then copy concretely
		for k := uint64(0); k <= bound; k++ {
			if k == bound || m.ex.Branch(Bool{S: "(= " + n.T() + " " + CI(64, k).T() + ")"}) {
				return m.copyBytes(Slice{B: dst.B, Off: dst.Off, Len: CI(64, k), Cap: CI(64, k)}, Slice{B: src.B, Off: src.Off, Len: CI(64, k), Cap: CI(64, k)})
			}
		}
	}
	if bound == copyUnroll {
		r := m.ex.Aux(func() int {
			r := m.ex.check("(not (bvsle " + n.T() + " " + CI(64, bound).T() + "))")
			m.ex.pop()
			if r == "unsat" {
				return 1
			}
			return 0
		})
		if r == 0 {
			m.incon("unwinding: symbolic copy longer than 64 bytes")
		}
	}
	srcT := m.baTerm(src.B)
	t := m.baTerm(dst.B)
	for i := uint64(0); i < bound; i++ {
		ii := CI(64, i)
		di := m.add(dst.Off, ii).T()
		t = m.ex.Name("arr", arrSort, "(store "+t+" "+di+" (ite (bvult "+ii.T()+" "+n.T()+") (select "+srcT+" "+m.add(src.Off, ii).T()+") (select "+t+" "+di+")))")
	}
	m.baSetTerm(dst.B, t)
	return n
}

// concretizeSmall case-splits a symbolic length whose feasible range is provably within [0,32].
func (m *Machine) concretizeSmall(v Int) Int {
	if v.IsC() {
		return v
	}
	small := m.ex.Aux(func() int {
		r := m.ex.check("(not (and (bvsle (_ bv0 64) " + v.S + ") (bvsle " + v.S + " (_ bv32 64))))")
		m.ex.pop()
		if r == "unsat" {
			return 1
		}
		return 0
	})
	if small == 0 {
		return v
	}
	for k := uint64(0); k <= 32; k++ {
		if m.ex.Branch(Bool{S: "(= " + v.S + " " + CI(64, k).T() + ")"}) {
			return CI(64, k)
		}
	}
	return v
}

func (m *Machine) appendOp(args []Val, cc *ssa.CallCommon) Val {
	dst := args[0].(Slice)
	if st, ok := args[1].(Str); ok {
		args[1] = m.strToBytes(st)
	}
	src := args[1].(Slice)
	isB := dst.B != nil || src.B != nil
	if !isB && dst.A == nil && src.A == nil {
		// both nil/empty: decide by static type
		if cc != nil {
			if st, ok := cc.Args[0].Type().Underlying().(*types.Slice); ok && isByte(st.Elem()) {
				isB = true
			}
		}
	}
	if src.Len.IsC() && src.Len.C == 0 {
		return dst
	}
	if isB {
		dl, sl := m.concretizeSmall(dst.Len), m.concretizeSmall(src.Len)
		if !dl.IsC() || !sl.IsC() {
			m.incon("append with symbolic byte lengths")
		}
		nl := dl.C + sl.C
		out := dst
		if dst.B == nil || !dst.Cap.IsC() || nl > dst.Cap.C {
			oldCap := uint64(0)
			if dst.B != nil && dst.Cap.IsC() {
				oldCap = dst.Cap.C
			}
			nc := nextSliceCap(nl, oldCap)
			if nc < 8 {
				nc = 8
			}
			if m.allocBudget != nil {
				// growth by append allocates at least the capacity computed by the runtime's growth rule
				// (size-class rounding can only add to it)
				m.ex.Oblige(sle(CI(64, nc), *m.allocBudget), "alloc-not-backed-by-input (append) in "+m.curFn())
			}
			m.noteAlloc(CI(64, nc))
			nb := newByteArr(CI(64, nc))
			out = Slice{B: nb, Off: CI(64, 0), Len: CI(64, nl), Cap: CI(64, nc)}
			if dst.B != nil && dl.C > 0 {
				m.copyBytes(Slice{B: nb, Off: CI(64, 0), Len: dl, Cap: dl}, Slice{B: dst.B, Off: dst.Off, Len: dl, Cap: dl})
			}
		} else {
			out.Len = CI(64, nl)
		}
		out.Nil = false
		if sl.C > 0 {
			m.copyBytes(Slice{B: out.B, Off: m.add(out.Off, dl), Len: sl, Cap: sl}, Slice{B: src.B, Off: src.Off, Len: sl, Cap: sl})
		}
		return out
	}
	dl, sl := m.concretize(dst.Len, "append len"), m.concretize(src.Len, "append len")
	doff := m.concretize(dst.Off, "append off")
	soff := m.concretize(src.Off, "append off")
	nl := dl.C + sl.C
	out := dst
	dcap := m.concretize(dst.Cap, "append cap")
	if dst.A == nil || nl > dcap.C {
		nc := nl * 2
		if nc < 4 {
			nc = 4
		}
		var et types.Type
		if cc != nil {
			et = cc.Args[0].Type().Underlying().(*types.Slice).Elem()
		}
		na := &Array{E: make([]*Cell, nc)}
		for i := range na.E {
			if uint64(i) < dl.C {
				na.E[i] = m.newCell(m.copyVal(dst.A.E[doff.C+uint64(i)].V))
			} else if et != nil {
				na.E[i] = m.newCell(m.zero(et))
			} else {
				na.E[i] = m.newCell(nil)
			}
		}
		out = Slice{A: na, Off: CI(64, 0), Len: CI(64, nl), Cap: CI(64, nc)}
		doff = CI(64, 0)
	} else {
		out.Len = CI(64, nl)
		// append within the spare capacity writes into the backing array the original slice shares: if that
		// array existed before the traced operation began, this is a write to shared state (two goroutines
		// appending to the same base slice race on the element slot)
		if m.trace != nil && sl.C > 0 && m.inCodeUnderTest() {
			if c := out.A.E[doff.C+dl.C]; c.Epoch < m.trace.epoch {
				et := "element"
				if cc != nil {
					et = cc.Args[0].Type().String()
				}
				m.trace.add(m, "backing array of a shared "+et+" (append within capacity)", true)
			}
		}
	}
	for i := uint64(0); i < sl.C; i++ {
		m.assignInto(out.A.E[doff.C+dl.C+i], m.copyVal(src.A.E[soff.C+i].V))
	}
	return out
}

func (m *Machine) builtin(name string, args []Val, cc *ssa.CallCommon) Val {
	switch name {
	case "len":
		switch a := args[0].(type) {
		case Slice:
			return a.Len
		case Str:
			return m.strLen(a)
		case Map:
			if a.M == nil {
				return CI(64, 0)
			}
			if m.trace != nil {
				m.trace.accessMap(m, a.M, false)
			}
			return CI(64, uint64(len(a.M.E)))
		case Ptr:
			switch arr := a.C.V.(type) {
			case *ByteArr:
				return arr.Cap
			case *Array:
				return CI(64, uint64(len(arr.E)))
			}
		case *Array:
			return CI(64, uint64(len(a.E)))
		case *ByteArr:
			return a.Cap
		case Chan:
			return CI(64, 0)
		}
	case "cap":
		switch a := args[0].(type) {
		case Slice:
			return a.Cap
		}
	case "copy":
		return m.copyBytes(args[0].(Slice), args[1])
	case "append":
		return m.appendOp(args, cc)
	case "delete":
		m.mapDelete(args[0], args[1])
		return nil
	case "max", "min":
		x0, x1 := args[0].(Int), args[1].(Int)
		lt := m.ex.Branch(slt(x0, x1))
		if (lt && name == "max") || (!lt && name == "min") {
			return x1
		}
		return x0
	case "recover":
		if m.curPanic == nil {
			return Iface{}
		}
		p := m.curPanic
		m.curPanic = nil
		if iv, ok := p.val.(Iface); ok {
			return iv
		}
		return m.newErr("recovered")
	case "ssa:wrapnilchk":
		if p, ok := args[0].(Ptr); ok && p.C == nil && p.BA == nil {
			m.rtPanic("nil-deref (value method called through nil pointer)")
		}
		return args[0]
	case "print", "println":
		return nil
	case "close":
		return nil
	case "clear":
		if mp, ok := args[0].(Map); ok && mp.M != nil {
			mp.M.E = nil
		}
		return nil
	}
	m.incon("builtin " + name)
	return nil
}

// nextRuneSym: range over a string made of symbolic bytes - UTF-8 decoding by case split
// (ASCII, 2/3/4-byte sequences with Go's validity rules, otherwise RuneError with width 1).
func (m *Machine) nextRuneSym(it *Iter) Val {
	bs := it.S.B
	p := it.Pos
	if p >= len(bs) {
		return Tuple{CB(false), CI(64, 0), CI(32, 0)}
	}
	in := func(b Int, lo, hi uint64) Bool {
		return And(m.intBin(token.GEQ, b, CI(8, lo), false).(Bool), m.intBin(token.LEQ, b, CI(8, hi), false).(Bool))
	}
	ext := func(b Int) Int { return m.resize(b, 32, false) }
	and := func(b Int, k uint64) Int { return m.intBin(token.AND, ext(b), CI(32, k), false).(Int) }
	shl := func(v Int, k uint64) Int { return m.intBin(token.SHL, v, CI(32, k), false).(Int) }
	or := func(a, b Int) Int { return m.intBin(token.OR, a, b, false).(Int) }
	done := func(r Int, w int) Val {
		it.Pos = p + w
		return Tuple{CB(true), CI(64, uint64(p)), r}
	}
	b0 := bs[p]
	if m.ex.Branch(m.intBin(token.LSS, b0, CI(8, 0x80), false).(Bool)) {
		return done(ext(b0), 1)
	}
	cont := func(i int) Bool {
		if p+i >= len(bs) {
			return CB(false)
		}
		return in(bs[p+i], 0x80, 0xBF)
	}
	if p+1 < len(bs) && m.ex.Branch(And(in(b0, 0xC2, 0xDF), cont(1))) {
		return done(or(shl(and(b0, 0x1F), 6), and(bs[p+1], 0x3F)), 2)
	}
	if p+2 < len(bs) {
		b1 := bs[p+1]
		lead3 := Or(Or(And(in(b0, 0xE1, 0xEC), in(b1, 0x80, 0xBF)), And(in(b0, 0xEE, 0xEF), in(b1, 0x80, 0xBF))),
			Or(And(in(b0, 0xE0, 0xE0), in(b1, 0xA0, 0xBF)), And(in(b0, 0xED, 0xED), in(b1, 0x80, 0x9F))))
		if m.ex.Branch(And(lead3, cont(2))) {
			return done(or(or(shl(and(b0, 0x0F), 12), shl(and(b1, 0x3F), 6)), and(bs[p+2], 0x3F)), 3)
		}
	}
	if p+3 < len(bs) {
		b1 := bs[p+1]
		lead4 := Or(And(in(b0, 0xF1, 0xF3), in(b1, 0x80, 0xBF)), Or(And(in(b0, 0xF0, 0xF0), in(b1, 0x90, 0xBF)), And(in(b0, 0xF4, 0xF4), in(b1, 0x80, 0x8F))))
		if m.ex.Branch(And(And(lead4, cont(2)), cont(3))) {
			return done(or(or(or(shl(and(b0, 0x07), 18), shl(and(b1, 0x3F), 12)), shl(and(bs[p+2], 0x3F), 6)), and(bs[p+3], 0x3F)), 4)
		}
	}
	return done(CI(32, 0xFFFD), 1)
}

// nextSliceCap is runtime.nextslicecap (Go 1.20+) without the size-class rounding.
func nextSliceCap(newLen, oldCap uint64) uint64 {
	doublecap := oldCap + oldCap
	if newLen > doublecap {
		return newLen
	}
	const threshold = 256
	if oldCap < threshold {
		return doublecap
	}
	newcap := oldCap
	for {
		newcap += (newcap + 3*threshold) >> 2
		if newcap >= newLen {
			break
		}
	}
	return newcap
}

// inCodeUnderTest: the innermost active function is declared by the module under test (not by a harness
// file or a runtime model).
func (m *Machine) inCodeUnderTest() bool {
	if len(m.frames) == 0 {
		return false
	}
	fn := m.frames[len(m.frames)-1].fn
	for fn.Parent() != nil {
		fn = fn.Parent()
	}
	if o := fn.Object(); o != nil {
		return m.underTest(o)
	}
	return false
}

// noteAlloc keeps the size of the largest single byte allocation (a term when sizes are symbolic).
func (m *Machine) noteAlloc(n Int) {
	if m.maxAlloc == nil {
		m.maxAlloc = &n
		return
	}
	cur := *m.maxAlloc
	if cur.IsC() && n.IsC() {
		if n.C > cur.C {
			m.maxAlloc = &n
		}
		return
	}
	r := Int{W: 64, S: "(ite (bvsgt " + n.T() + " " + cur.T() + ") " + n.T() + " " + cur.T() + ")"}
	if len(r.S) > 200 {
		r = Int{W: 64, S: m.ex.Name("maxalloc", "(_ BitVec 64)", r.S)}
	}
	m.maxAlloc = &r
}
