package main

import (
	"math/rand"
	"regexp"
	"testing"
)

// the NFA encoding, run on fully concrete byte strings, must agree with the real regexp package
func TestSymRegexConcrete(t *testing.T) {
	pats := []string{
		"^-{5}[A-Z0-9 ]*-{5}(\n|\r\n){0,1}$",
		"^-{5}[A-Z0-9 ]*-{5}(\n|\r\n)?$",
		"-{2}[A-Z]+",
		"^(a|ab)(c|bcd)(d*)$",
		"(?m)^x$",
		"^[a-c]*b[0-9]{2,3}$",
		"a*a*a*$",
	}
	alpha := []byte("-AZ09 \n\rab cdx5\x80\xc3\xa9")
	rng := rand.New(rand.NewSource(1))
	m := &Machine{}
	for _, p := range pats {
		re := regexp.MustCompile(p)
		for it := 0; it < 4000; it++ {
			n := rng.Intn(14)
			b := make([]byte, n)
			for i := range b {
				b[i] = alpha[rng.Intn(len(alpha))]
			}
			if it%5 == 0 && n >= 10 {
				copy(b, "-----")
				copy(b[n-5:], "-----")
			}
			bs := make([]Int, n)
			for i := range b {
				bs[i] = CI(8, uint64(b[i]))
			}
			r, ok := m.symRegexMatch(p, bs)
			if !ok {
				t.Fatalf("pattern %q unsupported", p)
			}
			if !r.IsC() {
				t.Fatalf("non-constant result on concrete input")
			}
			if r.C != re.MatchString(string(b)) {
				t.Fatalf("pattern %q input %q: encoding says %v, regexp says %v", p, b, r.C, !r.C)
			}
		}
	}
	if _, ok := m.symRegexMatch("a.b", nil); ok {
		t.Fatalf("'.' must be unsupported")
	}
	if _, ok := m.symRegexMatch("[^a]", nil); ok {
		t.Fatalf("negated class must be unsupported")
	}
}

// the range terms generated for a symbolic byte must describe exactly the bytes the instruction matches
func TestSymRegexByteTerm(t *testing.T) {
	m := &Machine{}
	rx := regexp.MustCompile(`\(= b #x([0-9a-f]{2})\)|\(and \(bvuge b #x([0-9a-f]{2})\) \(bvule b #x([0-9a-f]{2})\)\)`)
	for _, p := range []string{"[A-Z0-9 ]", "-", "[\n\r]", "[a-cx-z_]"} {
		re := regexp.MustCompile("^" + p + "$")
		prog := mustProg(p)
		for i := range prog.Inst {
			in := &prog.Inst[i]
			if in.Op.String() != "rune" && in.Op.String() != "rune1" {
				continue
			}
			term := m.reByteMatches(in, Int{W: 8, S: "b"})
			set := map[int]bool{}
			for _, g := range rx.FindAllStringSubmatch(term, -1) {
				var lo, hi int
				if g[1] != "" {
					lo = hexv(g[1])
					hi = lo
				} else {
					lo, hi = hexv(g[2]), hexv(g[3])
				}
				for c := lo; c <= hi; c++ {
					set[c] = true
				}
			}
			for c := 0; c < 256; c++ {
				want := c < 0x80 && re.MatchString(string([]byte{byte(c)}))
				if set[c] != want {
					t.Fatalf("pattern %q byte %#x: term %s says %v want %v", p, c, term, set[c], want)
				}
			}
		}
	}
}
