package main

import (
	"fmt"
	"regexp/syntax"
	"strings"
)

// Exact SMT encoding of (*regexp.Regexp).MatchString for a byte-string of concrete length with
// symbolic bytes: the pattern is compiled with Go's own regexp/syntax to the Thompson program the
// real matcher runs, and that program is simulated position by position with one Boolean term per
// live thread. Exact whenever every character class of the program is ASCII-only (then a
// multi-byte rune or an invalid byte can match no instruction, so byte-wise and rune-wise
// simulation coincide); anything else (".", negated classes, case folding) is reported as
// unsupported and the caller falls back to the over-approximation "any verdict".

func reAnd(a, b string) string {
	if a == "true" {
		return b
	}
	if b == "true" {
		return a
	}
	if a == "false" || b == "false" {
		return "false"
	}
	return "(and " + a + " " + b + ")"
}

func reOr(cs []string) string {
	var out []string
	for _, c := range cs {
		if c == "true" {
			return "true"
		}
		if c != "false" {
			out = append(out, c)
		}
	}
	if len(out) == 0 {
		return "false"
	}
	if len(out) == 1 {
		return out[0]
	}
	return "(or " + strings.Join(out, " ") + ")"
}

func reSupported(prog *syntax.Prog) bool {
	for i := range prog.Inst {
		in := &prog.Inst[i]
		switch in.Op {
		case syntax.InstRuneAny, syntax.InstRuneAnyNotNL:
			return false
		case syntax.InstRune, syntax.InstRune1:
			if syntax.Flags(in.Arg)&syntax.FoldCase != 0 {
				return false
			}
			for _, r := range in.Rune {
				if r >= 0x80 {
					return false
				}
			}
		case syntax.InstEmptyWidth:
			if syntax.EmptyOp(in.Arg)&(syntax.EmptyWordBoundary|syntax.EmptyNoWordBoundary) != 0 {
				return false
			}
		}
	}
	return true
}

// byteMatches: condition under which the (symbolic) byte b is matched by a rune instruction.
func (m *Machine) reByteMatches(in *syntax.Inst, b Int) string {
	if b.IsC() {
		if b.C < 0x80 && in.MatchRune(rune(b.C)) {
			return "true"
		}
		return "false"
	}
	var alts []string
	lo := -1
	flush := func(hi int) {
		if lo < 0 {
			return
		}
		if lo == hi {
			alts = append(alts, fmt.Sprintf("(= %s #x%02x)", b.S, lo))
		} else {
			alts = append(alts, fmt.Sprintf("(and (bvuge %s #x%02x) (bvule %s #x%02x))", b.S, lo, b.S, hi))
		}
		lo = -1
	}
	for c := 0; c < 0x80; c++ {
		if in.MatchRune(rune(c)) {
			if lo < 0 {
				lo = c
			}
		} else {
			flush(c - 1)
		}
	}
	flush(0x7f)
	return reOr(alts)
}

func (m *Machine) symRegexMatch(pattern string, bs []Int) (Bool, bool) {
	re, err := syntax.Parse(pattern, syntax.Perl)
	if err != nil {
		return Bool{}, false
	}
	prog, err := syntax.Compile(re.Simplify())
	if err != nil || !reSupported(prog) {
		return Bool{}, false
	}
	n := len(bs)
	isNL := func(i int) string { // byte i is '\n'
		if bs[i].IsC() {
			if bs[i].C == '\n' {
				return "true"
			}
			return "false"
		}
		return "(= " + bs[i].S + " #x0a)"
	}
	emptyCond := func(op syntax.EmptyOp, pos int) string {
		c := "true"
		if op&syntax.EmptyBeginText != 0 && pos != 0 {
			return "false"
		}
		if op&syntax.EmptyEndText != 0 && pos != n {
			return "false"
		}
		if op&syntax.EmptyBeginLine != 0 && pos != 0 {
			c = reAnd(c, isNL(pos-1))
		}
		if op&syntax.EmptyEndLine != 0 && pos != n {
			c = reAnd(c, isNL(pos))
		}
		return c
	}
	type ent struct {
		pc   int
		cond string
	}
	var matched []string
	var cur []ent
	for pos := 0; pos <= n; pos++ {
		cur = append(cur, ent{prog.Start, "true"}) // unanchored search: a match may start anywhere
		clo := map[int][]string{}
		var order []int
		var visit func(pc int, cond string, onpath map[int]bool)
		visit = func(pc int, cond string, onpath map[int]bool) {
			if cond == "false" || onpath[pc] {
				return
			}
			in := &prog.Inst[pc]
			switch in.Op {
			case syntax.InstFail:
			case syntax.InstAlt, syntax.InstAltMatch:
				onpath[pc] = true
				visit(int(in.Out), cond, onpath)
				visit(int(in.Arg), cond, onpath)
				delete(onpath, pc)
			case syntax.InstNop, syntax.InstCapture:
				onpath[pc] = true
				visit(int(in.Out), cond, onpath)
				delete(onpath, pc)
			case syntax.InstEmptyWidth:
				onpath[pc] = true
				visit(int(in.Out), reAnd(cond, emptyCond(syntax.EmptyOp(in.Arg), pos)), onpath)
				delete(onpath, pc)
			default: // Match, Rune, Rune1
				if _, ok := clo[pc]; !ok {
					order = append(order, pc)
				}
				clo[pc] = append(clo[pc], cond)
			}
		}
		for _, e := range cur {
			visit(e.pc, e.cond, map[int]bool{})
		}
		cur = cur[:0]
		for _, pc := range order {
			c := reOr(clo[pc])
			if len(c) > 120 {
				c = m.ex.Name("re", "Bool", c)
			}
			in := &prog.Inst[pc]
			if in.Op == syntax.InstMatch {
				matched = append(matched, c)
				continue
			}
			if pos < n {
				cur = append(cur, ent{int(in.Out), reAnd(c, m.reByteMatches(in, bs[pos]))})
			}
		}
	}
	r := reOr(matched)
	if r == "true" {
		return CB(true), true
	}
	if r == "false" {
		return CB(false), true
	}
	return Bool{S: m.ex.Name("rematch", "Bool", r)}, true
}
