package main

import (
	"fmt"
	"strings"
)

// liveBytes measures the heap that is reachable right now: from the registers and free variables of
// every active frame, from every package-level variable, and from the side tables of the runtime
// models (strings.Builder contents). Pointers are concrete in this engine, so reachability is exact
// on the current path; sizes of byte buffers may be symbolic, so the result is a 64-bit term.
// Accounting: a byte buffer counts its capacity, every other cell 8 bytes, a string its length.
// Registers that are no longer live still count (each holds at most one value, a constant).
func (m *Machine) liveBytes(exclude []Val) Int {
	seenC := map[*Cell]bool{}
	seenA := map[*Array]bool{}
	seenB := map[*ByteArr]bool{}
	seenM := map[*MapObj]bool{}
	var total uint64
	var terms []string
	var walk func(v Val)
	walkCell := func(c *Cell) {
		if c == nil || seenC[c] {
			return
		}
		seenC[c] = true
		total += 8
		walk(c.V)
		if s, ok := m.sideStr[c]; ok {
			walk(s)
		}
	}
	walk = func(v Val) {
		switch x := v.(type) {
		case nil:
		case Ptr:
			walkCell(x.C)
			if x.BA != nil {
				walk(Slice{B: x.BA})
			}
		case Slice:
			if x.B != nil && !seenB[x.B] {
				seenB[x.B] = true
				if x.B.Cap.IsC() {
					total += x.B.Cap.C
				} else {
					terms = append(terms, x.B.Cap.T())
				}
			}
			if x.A != nil && !seenA[x.A] {
				seenA[x.A] = true
				for _, c := range x.A.E {
					walkCell(c)
				}
			}
		case Struct:
			for _, c := range x.F {
				walkCell(c)
			}
		case Iface:
			walk(x.V)
		case Tuple:
			for _, e := range x {
				walk(e)
			}
		case Map:
			if x.M != nil && !seenM[x.M] {
				seenM[x.M] = true
				for _, e := range x.M.E {
					total += 8
					walk(e.K)
					walkCell(e.V)
				}
			}
		case Func:
			for _, e := range x.Env {
				walk(e)
			}
		case *Iter:
			if x != nil {
				for _, e := range x.Keys {
					walk(e.K)
					walkCell(e.V)
				}
			}
		case Str:
			if x.IsB {
				total += uint64(len(x.B))
			} else if x.IsC() {
				total += uint64(len(x.C))
			}
		case Big:
			total += bigW / 8
		}
	}
	// what is reachable from the excluded roots (the modelled DISK, harness bookkeeping) is not memory of
	// the code under test: mark it first, do not count it
	for _, v := range exclude {
		walk(v)
	}
	total, terms = 0, nil
	for _, fr := range m.frames {
		for _, v := range fr.env {
			walk(v)
		}
		for _, v := range fr.free {
			walk(v)
		}
	}
	for _, c := range m.globals {
		walkCell(c)
	}
	if len(terms) == 0 {
		return CI(64, total)
	}
	return Int{W: 64, S: fmt.Sprintf("(bvadd (_ bv%d 64) %s)", total, strings.Join(terms, " "))}
}
