#!/bin/bash
# usage: verify_mutant.sh <dir with patch.diff + demo_test.go> <package dir of the demo, relative to repo root> [test run regex]
# confirms in the scratch worktree /tmp/wt_verify: applies, builds, suite passes, demo fails with / passes without the change
D=$1; PKG=$2; RUN=${3:-.}
W=/tmp/wt_verify
export GOFLAGS=-mod=mod GOPROXY=off GOSUMDB=off GOTOOLCHAIN=local
git -C $W checkout -q -- . ; git -C $W clean -fdq
git -C $W apply $D/patch.diff || { echo "VERIFY: patch does not apply"; exit 1; }
(cd $W && go build ./... ) || { echo "VERIFY: does not build"; exit 1; }
(cd $W && go test -vet=off -count=1 ./... > /tmp/verify_suite.log 2>&1) || { echo "VERIFY: existing suite FAILS with the change"; grep -v "^ok\|no test files" /tmp/verify_suite.log | head; exit 1; }
echo "VERIFY: applies, builds, suite passes"
cp $D/demo_test.go $W/$PKG/zz_demo_test.go
(cd $W && go test -vet=off -count=1 -run "$RUN" ./$PKG/ > /tmp/verify_demo_mut.log 2>&1); rc1=$?
git -C $W apply -R $D/patch.diff
(cd $W && go test -vet=off -count=1 -run "$RUN" ./$PKG/ > /tmp/verify_demo_clean.log 2>&1); rc2=$?
rm -f $W/$PKG/zz_demo_test.go; git -C $W checkout -q -- . ; git -C $W clean -fdq
echo "VERIFY: demo with change rc=$rc1 (want !=0), clean rc=$rc2 (want 0)"
[ $rc1 -ne 0 ] && [ $rc2 -eq 0 ] && echo "VERIFY: CONFIRMED" || { echo "VERIFY: NOT CONFIRMED"; tail -5 /tmp/verify_demo_mut.log /tmp/verify_demo_clean.log; exit 1; }
