#!/usr/bin/env python3
"""Regenerates MANIFEST.json from props.json (claimed checks) and manifest_meta.json (texts, not_applicable)."""
import json
props=json.load(open('/verif/props.json'))
meta=json.load(open('/verif/manifest_meta.json'))
all_ids=[json.loads(l)['id'] for l in open('/verif/properties.jsonl')]
checks=[]
for pid in all_ids:
    if pid in props and pid in meta['checks']:
        m=meta['checks'][pid]
        checks.append({
          "property_id":pid,
          "quick_cmd":f"./check {pid} quick",
          "thorough_cmd":f"./check {pid} thorough",
          "evidence_file":f"/verif/evidence/{pid}.json",
          "replay_cmd_template":"./bin/gosym -replay {path}",
          "engine":"gosym",
          "level_claimed":{"category":"other","text":m['text'],"design_ref":m.get('design_ref','DESIGN.md section 2')},
          "level_note":m['note'],
          "technique":m.get('technique',"bounded symbolic execution of the real go/ssa code, SMT-decided (z3)")})
na=[{"property_id":p,"reason":meta['not_applicable'].get(p,"check not built yet in this session")} for p in all_ids if not any(c['property_id']==p for c in checks)]
man={"version":1,
 "setup_cmd":"./setup.sh",
 "hooks":{"guard":"none (harnesses and the verifrt runtime are injected with a go/packages and go test overlay; nothing is compiled into /repo)",
          "enable":"overlay: /verif/harness/<pkg>/*.go -> /repo/<pkg>/zz_verif_*.go, /verif/rt/verifrt -> /repo/zz_verif/verifrt (virtual, never written to /repo)",
          "baseline_off_cmd":"cd /repo && GOFLAGS=-mod=mod go test -json -vet=off -count=1 -timeout 25m ./...",
          "source_commits":[],"add_only":True},
 "engines":[{"name":"gosym","path":"/verif/engine","serves_properties":[c['property_id'] for c in checks],
   "kind_free_text":"own symbolic executor for Go: go/packages+go/ssa of /repo's current tree -> path-at-a-time symbolic execution -> SMT-LIB2 -> z3 (z3 5.1/cvc5 cross-check in thorough tier); native replay of models via go test -overlay"}],
 "checks":checks,
 "notes":meta.get('notes',''),
 "not_applicable":na}
json.dump(man,open('/verif/MANIFEST.json','w'),indent=1)
print("checks:",[c['property_id'] for c in checks],"na:",len(na))
