#!/bin/bash
# Validation of the field-level encoding/asn1 model behind C18/record-schema against the real library:
# 20 concrete value shapes (every presence/emptiness combination the harness distinguishes) are run
# NATIVELY through VerifC18_Schema - real ASN1Serializer, real encoding/asn1, the overrides are no-ops -
# on the current tree. The model says every assertion holds for them; the real library must agree.
cd "$(dirname "$0")/.."
bad=0
for f in $(pwd)/validate/schema_cases/case*.json; do
  out=$(./bin/gosym -replay $f 2>&1)
  if echo "$out" | grep -q "ASSERT-FAILED\|ASSUME-FALSE\|panic:\|FAIL"; then echo "DISAGREES: $f"; echo "$out" | tail -5; bad=1; fi
done
[ $bad = 0 ] && echo "schema model agrees with encoding/asn1 on $(ls validate/schema_cases | wc -l) shapes"
exit $bad
