package ocsp

// Validation of the ocsp.ParseResponse / ParseResponseForCert CONTRACT MODEL used by the C02/C05/C14
// harnesses (modelParse in h_models.go) against the REAL golang.org/x/crypto/ocsp library:
// real responses are generated for every attribute combination and the verdict of the library is
// compared with the verdict of the model. Run by /verif/setup.sh through a go test overlay.

import (
	"crypto"
	"crypto/ecdsa"
	"crypto/elliptic"
	"crypto/rand"
	"crypto/x509"
	"crypto/x509/pkix"
	"math/big"
	"testing"
	"time"

	xocsp "golang.org/x/crypto/ocsp"
)

func mkCert(t *testing.T, cn string, serial int64, parent *x509.Certificate, parentKey crypto.Signer, isCA bool, eku []x509.ExtKeyUsage) (*x509.Certificate, *ecdsa.PrivateKey) {
	key, _ := ecdsa.GenerateKey(elliptic.P256(), rand.Reader)
	tmpl := &x509.Certificate{SerialNumber: big.NewInt(serial), Subject: pkix.Name{CommonName: cn}, NotBefore: time.Now().Add(-time.Hour), NotAfter: time.Now().Add(time.Hour),
		IsCA: isCA, BasicConstraintsValid: true, KeyUsage: x509.KeyUsageDigitalSignature | x509.KeyUsageCertSign, ExtKeyUsage: eku}
	p, pk := tmpl, crypto.Signer(key)
	if parent != nil {
		p, pk = parent, parentKey
	}
	der, err := x509.CreateCertificate(rand.Reader, tmpl, p, &key.PublicKey, pk)
	if err != nil {
		t.Fatal(err)
	}
	c, _ := x509.ParseCertificate(der)
	return c, key
}

func TestVerifOcspContractModelAgainstLibrary(t *testing.T) {
	ca, caKey := mkCert(t, "CA", 1, nil, nil, true, nil)
	stranger, strangerKey := mkCert(t, "Stranger", 2, nil, nil, true, nil)
	delegEKU, delegEKUKey := mkCert(t, "Responder", 3, ca, caKey, false, []x509.ExtKeyUsage{x509.ExtKeyUsageOCSPSigning})
	delegNoEKU, delegNoEKUKey := mkCert(t, "Device", 4, ca, caKey, false, nil)
	strDeleg, strDelegKey := mkCert(t, "StrangerResponder", 5, stranger, strangerKey, false, []x509.ExtKeyUsage{x509.ExtKeyUsageOCSPSigning})
	client, _ := mkCert(t, "client", 4711, ca, caKey, false, nil)
	other, _ := mkCert(t, "other", 4712, ca, caKey, false, nil)

	type signer struct {
		name     string
		issuer   *x509.Certificate // certificate named as issuer in CreateResponse (hash of its name/key goes into CertID)
		resp     *x509.Certificate // responder certificate
		key      crypto.Signer
		embedded bool
		model    func(r *modelResp)
	}
	signers := []signer{
		{"CA direct", ca, ca, caKey, false, func(r *modelResp) { r.signedBy, r.signerIdx = byIssuer, 0 }},
		{"delegated with EKU", ca, delegEKU, delegEKUKey, true, func(r *modelResp) { r.hasEmbedded, r.signedBy, r.embeddedIssuedBy, r.embeddedEKU = true, byEmbedded, 0, true }},
		{"delegated without EKU", ca, delegNoEKU, delegNoEKUKey, true, func(r *modelResp) { r.hasEmbedded, r.signedBy, r.embeddedIssuedBy, r.embeddedEKU = true, byEmbedded, 0, false }},
		{"stranger direct", ca, stranger, strangerKey, false, func(r *modelResp) { r.signedBy = byStranger }},
		{"stranger with own embedded cert", ca, strDeleg, strDelegKey, true, func(r *modelResp) { r.hasEmbedded, r.signedBy, r.embeddedIssuedBy, r.embeddedEKU = true, byEmbedded, -1, true }},
	}
	candidates = []*x509.Certificate{ca}
	rows, mismatches := 0, 0
	for _, sg := range signers {
		for _, about := range []*x509.Certificate{client, other} {
			for _, status := range []int{xocsp.Good, xocsp.Revoked, xocsp.Unknown} {
				tmpl := xocsp.Response{Status: status, SerialNumber: about.SerialNumber, ThisUpdate: time.Now(), NextUpdate: time.Now().Add(time.Hour), RevokedAt: time.Now()}
				if sg.embedded {
					tmpl.Certificate = sg.resp
				}
				der, err := xocsp.CreateResponse(sg.issuer, sg.resp, tmpl, sg.key)
				if err != nil {
					t.Fatal(err)
				}
				m := &modelResp{wellFormed: true, successful: true, nResponses: 1, serial: about.SerialNumber, status: status}
				sg.model(m)
				resps = []*modelResp{m}
				for _, withCert := range []bool{false, true} {
					for _, withIssuer := range []bool{false, true} {
						var c, iss *x509.Certificate
						if withCert {
							c = client
						}
						if withIssuer {
							iss = ca
						}
						real, rerr := xocsp.ParseResponseForCert(der, c, iss)
						m.obj = nil
						mod, merr := modelParse(respBytes(0), c, iss)
						rows++
						if (rerr == nil) != (merr == nil) {
							mismatches++
							t.Errorf("%s / about %v / status %d / cert=%v issuer=%v: library err=%v, model err=%v", sg.name, about.SerialNumber, status, withCert, withIssuer, rerr, merr)
							continue
						}
						if rerr == nil {
							if real.Status != mod.Status || real.SerialNumber.Cmp(mod.SerialNumber) != 0 || (real.Certificate != nil) != (mod.Certificate != nil) {
								mismatches++
								t.Errorf("%s: accepted by both but differ: library status=%d serial=%v, model status=%d serial=%v", sg.name, real.Status, real.SerialNumber, mod.Status, mod.SerialNumber)
							}
						}
					}
				}
			}
		}
	}
	// error status and garbage
	for _, der := range [][]byte{{0x30, 0x03, 0x0a, 0x01, 0x06}, {0x01, 0x02, 0x03}, {}} {
		_, rerr := xocsp.ParseResponse(der, nil)
		rows++
		if rerr == nil {
			t.Errorf("library accepted an error-status / malformed response")
		}
	}
	t.Logf("ocsp contract model validated against the library: %d rows, %d mismatches", rows, mismatches)
}
