#!/bin/bash
# Validation of the time.Parse model behind C06/utc-century (two-digit year: >= 69 -> 19yy, else 20yy) against the
# real time package: VerifC06_UtcCentury is run NATIVELY on the current tree for the years on both sides of both
# pivots (69: package time's, 50: RFC 5280's). The model says the assertion holds; the real library must agree.
cd "$(dirname "$0")/.."
bad=0
for f in $(pwd)/validate/utc_cases/*.json; do
  out=$(./bin/gosym -replay $f 2>&1)
  if echo "$out" | grep -q "ASSERT-FAILED\|ASSUME-FALSE\|panic:\|FAIL"; then echo "DISAGREES: $f"; echo "$out" | tail -5; bad=1; fi
done
[ $bad = 0 ] && echo "time.Parse model agrees with package time on $(ls validate/utc_cases | wc -l) years"
exit $bad
