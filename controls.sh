#!/bin/bash
# usage: controls.sh [tier] [id-pattern] [lanes]  - negative controls: behaviour-preserving refactorings in
# seeded_controls/<id>/patch.diff are applied to a scratch worktree; every check whose anchored code the
# refactoring touches must stay green (exit 0). One line per refactoring: ok / ALARM / inconclusive.
T=${1:-quick}; PAT=${2:-R*}; LANES=${3:-4}
cd "$(dirname "$0")"; V=$(pwd)
R=${VERIF_REPO:-/repo}
W=$((16 / LANES)); [ $W -lt 2 ] && W=2
mkdir -p matrix_logs
OUT=matrix_logs/CONTROLS_$(date +%Y%m%d_%H%M%S)_$T.txt
ids=$(cd seeded_controls && ls -d $PAT 2>/dev/null | grep '^R[0-9]')
source <(sed -n '/^props_for() {/,/^}/p' matrix.sh)
lane() {
  local i=$1; shift
  local wt=/tmp/cx_lane_$$_$i
  git -C $R worktree remove --force $wt >/dev/null 2>&1; rm -rf $wt
  git -C $R worktree add -q --detach $wt HEAD || return
  export VERIF_REPO=$wt VERIF_OUT=/tmp/cx_out_$$_$i
  mkdir -p $VERIF_OUT
  for id in "$@"; do
    d=seeded_controls/$id
    git -C $wt checkout -q -- . ; git -C $wt clean -fdq
    git -C $wt apply "$V/$d/patch.diff" || { echo "$id: patch does not apply" >> $OUT; continue; }
    line="$id"
    for p in $(props_for $d/patch.diff); do
      timeout 1500 ./check $p $T -workers $W > matrix_logs/${id}_$p.log 2>&1; rc=$?
      if [ $rc -eq 1 ]; then line="$line $p:ALARM"; elif [ $rc -ne 0 ]; then line="$line $p:inconclusive"; else line="$line $p:ok"; fi
    done
    echo "$line" | tee -a $OUT
  done
  git -C $R worktree remove --force $wt >/dev/null 2>&1; rm -rf $wt $VERIF_OUT
}
n=0; declare -a L
for id in $ids; do L[$((n % LANES))]="${L[$((n % LANES))]} $id"; n=$((n+1)); done
for i in $(seq 0 $((LANES-1))); do [ -n "${L[$i]}" ] && lane $i ${L[$i]} & done
wait
sort -o $OUT $OUT
echo "controls written to $OUT"
