#!/bin/bash
# runs every registered check of a tier in sequence; prints one line per property
T=${1:-quick}
for p in $(python3 -c "import json;print(' '.join(c['property_id'] for c in json.load(open('/verif/MANIFEST.json'))['checks']))"); do
  s=$(date +%s); ./check $p $T > /tmp/run_$p.log 2>&1; rc=$?; e=$(date +%s)
  echo "$p rc=$rc $((e-s))s viol=$(grep -c '^VIOLATION' /tmp/run_$p.log) known=$(grep -c '^KNOWN-FINDING' /tmp/run_$p.log) incon=$(grep -c '^INCONCLUSIVE' /tmp/run_$p.log)"
done
