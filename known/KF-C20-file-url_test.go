package crlloader

// Demonstration of known finding KF-C20-file-url (property C20): a crl_file and a crl_url with the
// same text map to the same store identifier, so the two locations share one store.
// Run:  cp /verif/known/KF-C20-file-url_test.go /tmp/x/ && go test -overlay ... (see /verif/known/README.md)

import "testing"

func TestKnownFindingFileAndUrlShareAStore(t *testing.T) {
	text := "http://crl.example.org/ca.crl"
	f := &FileLoader{FileName: text}
	u := &URLLoader{UrlString: text}
	fi, _ := f.GetCRLLocationIdentifier()
	ui, _ := u.GetCRLLocationIdentifier()
	if fi == ui {
		t.Fatalf("crl_file %q and crl_url %q share the store %s", text, text, fi)
	}
}
