// Package verifrt (native twin): replays a solver model against the real build.
// Nondet* return the model's values in call order per label; Assert panics on failure.
package verifrt

import (
	"encoding/json"
	"reflect"
	"fmt"
	"os"
	"runtime"
	"strconv"
	"strings"
	"time"
)

type replayFile struct {
	Model  map[string]string `json:"model"`
	Params map[string]int    `json:"params"`
}

var (
	rf     replayFile
	loaded bool
	cnt    = map[string]int{}
	budget = -1
	base   uint64
)

func load() {
	if loaded {
		return
	}
	loaded = true
	b, err := os.ReadFile(os.Getenv("VERIF_MODEL"))
	if err != nil {
		return
	}
	json.Unmarshal(b, &rf)
}

func next(label string) (string, bool) {
	load()
	k := cnt[label]
	cnt[label] = k + 1
	v, ok := rf.Model[fmt.Sprintf("%s#%d", label, k)]
	return v, ok
}

func parseBV(s string) uint64 {
	s = strings.TrimSpace(s)
	if strings.HasPrefix(s, "#x") {
		v, _ := strconv.ParseUint(s[2:], 16, 64)
		return v
	}
	if strings.HasPrefix(s, "#b") {
		v, _ := strconv.ParseUint(s[2:], 2, 64)
		return v
	}
	if strings.HasPrefix(s, "(_ bv") {
		f := strings.Fields(s[5:])
		v, _ := strconv.ParseUint(f[0], 10, 64)
		return v
	}
	v, _ := strconv.ParseUint(s, 10, 64)
	return v
}

func NondetInt(label string) int     { v, _ := next(label); return int(int64(parseBV(v))) }
func NondetInt64(label string) int64 { v, _ := next(label); return int64(parseBV(v)) }
func NondetU64(label string) uint64  { v, _ := next(label); return parseBV(v) }
func NondetU8(label string) uint8    { v, _ := next(label); return uint8(parseBV(v)) }
func NondetBool(label string) bool   { v, _ := next(label); return strings.TrimSpace(v) == "true" }
func NondetString(label string) string {
	v, _ := next(label)
	v = strings.TrimSpace(v)
	if len(v) >= 2 && v[0] == '"' {
		v = v[1 : len(v)-1]
	}
	v = strings.ReplaceAll(v, "\"\"", "\"")
	// \u{..} escapes
	var sb strings.Builder
	for i := 0; i < len(v); i++ {
		if strings.HasPrefix(v[i:], "\\u{") {
			j := strings.IndexByte(v[i:], '}')
			if j > 0 {
				n, _ := strconv.ParseUint(v[i+3:i+j], 16, 32)
				sb.WriteByte(byte(n))
				i += j
				continue
			}
		}
		sb.WriteByte(v[i])
	}
	return sb.String()
}

func NondetBytes(label string, n int) []byte {
	load()
	k := cnt[label]
	cnt[label] = k + 1
	out := make([]byte, n)
	for i := 0; i < n; i++ {
		if v, ok := rf.Model[fmt.Sprintf("%s#%d[%d]", label, k, i)]; ok {
			out[i] = byte(parseBV(v))
		}
	}
	return out
}

func Choose(n int) int {
	v, ok := next("choose")
	if !ok {
		return 0
	}
	k, _ := strconv.Atoi(strings.TrimSpace(v))
	return k
}

func Assume(b bool) {
	if !b {
		fmt.Println("ASSUME-FALSE (model does not satisfy the harness precondition)")
		os.Exit(0)
	}
}
func Assert(b bool, label string) {
	if !b {
		fmt.Println("ASSERT-FAILED: " + label)
		panic("ASSERT-FAILED: " + label)
	}
}
func Reach(label string) {}

func AllocBudget(n int) {
	budget = n
	var ms runtime.MemStats
	runtime.ReadMemStats(&ms)
	base = ms.TotalAlloc
}

// CheckAlloc is called by native harness epilogues (deferred) to compare allocation with the budget.
func CheckAlloc() {
	if budget < 0 {
		return
	}
	var ms runtime.MemStats
	runtime.ReadMemStats(&ms)
	if ms.TotalAlloc-base > uint64(budget)+4096 {
		fmt.Printf("ALLOC-EXCEEDED: %d bytes allocated, budget %d\n", ms.TotalAlloc-base, budget)
		panic("ALLOC-EXCEEDED")
	}
}

func Param(name string, def int) int {
	load()
	if v, ok := rf.Params[name]; ok {
		return v
	}
	return def
}
func Symbolic() bool                       { return false }
func Override(name string, f interface{}) {}
func ClearOverride(name string)            {}
func AllowPanics(on bool)                  {}
func StepBudget(n int, violation bool)     {}
func MapOrders(on bool)                    {}
func SpawnedCount() int                    { return 0 }
func RunSpawned() int                      { return 0 }
func DropSpawned()                         {}
func Crash()                               {}
func CatchCrash(f func()) bool             { f(); return false }
func CatchPanic(f func()) (p bool) {
	defer func() {
		if r := recover(); r != nil {
			p = true
		}
	}()
	f()
	return false
}
func LocksHeld() int                   { return 0 }
func ResetLocks()                      {}
func NewError(label string) error      { return fmt.Errorf("%s", label) }
func TimeAt(ns int64) time.Time        { return time.Unix(0, ns) }
func TimeNs(t time.Time) int64         { return t.UnixNano() }
func SetNow(ns int64)                  {}
func FreeNow()                         {}
func TraceBegin(op string)             {}
func TraceEnd()                        {}
func UFStr(fn string, s string) string { return fn + "(" + s + ")" }
func BytesToToken(b []byte) string     { return string(b) }
func Note(s string)                    {}

// BytesEqual compares two byte slices (one solver term, no branching).
func BytesEqual(a, b []byte) bool {
	if len(a) != len(b) {
		return false
	}
	for i := range a {
		if a[i] != b[i] {
			return false
		}
	}
	return true
}

// And / Or / Implies combine conditions without introducing control flow (no path fork in the engine).
func And(a, b bool) bool     { return a && b }
func Or(a, b bool) bool      { return a || b }
func Implies(a, b bool) bool { return !a || b }

// UFBytes64 is an injective uninterpreted function from strings to 8 bytes (a collision-free hash).
func UFBytes64(fn string, s string) []byte { return make([]byte, 8) }

// OtherThreadHolds marks a *sync.Mutex as currently held by another thread that will release it:
// Lock then waits (and succeeds), TryLock fails.
func OtherThreadHolds(mutex interface{}) {}
func LiveBytes() int { return 0 }

// KeepSymbolicBounds: slices of engine-tracked buffers keep symbolic bounds symbolic instead of being
// case-split (for models in which only sizes matter, not contents).
func KeepSymbolicBounds(on bool) {}

// LiveBytesExcluding: like LiveBytes, not counting what is reachable from the given roots (the modelled
// disk, harness bookkeeping).
func LiveBytesExcluding(roots ...interface{}) int { return 0 }

// PreemptAtLock: before the k-th lock acquisition attempt (Lock, RLock, TryLock; k = 0,1,...) made from now
// on, f runs to completion - a context switch at a lock boundary. Schedules in which f would block on
// a lock held by the suspended operation are dropped. PreemptRan reports whether f ran and disarms.
func PreemptAtLock(k int, f func()) {}
func PreemptRan() bool              { return false }

// Yield marks a point inside a long-running environment call (download, disk I/O) that counts as a
// context-switch point for PreemptAtLock, like a lock acquisition.
func Yield() {}

// SpawnAsThread: the next goroutine the code under test starts runs at once as a second thread (until it
// returns, waits for a lock or pauses at a Yield); the spawning operation continues meanwhile and the two
// alternate whenever one of them has to wait. JoinThread lets it finish and reports whether one ran.
func SpawnAsThread(on bool) {}
func JoinThread() bool      { return false }

func InstallSyncMap() {}

// MaxAlloc: size of the largest single byte-buffer allocation so far; reset=true starts a new measurement.
func MaxAlloc(reset bool) int { return 0 }

// OverrideIfPresent: like Override, for a library function the current tree may not call at all.
func OverrideIfPresent(name string, f interface{}) {}

// FieldSpec / FieldCount: see verifrt (native: by reflection)
func FieldSpec(v interface{}, name string) string {
	t := reflect.TypeOf(v)
	for t != nil && t.Kind() == reflect.Ptr {
		t = t.Elem()
	}
	if t == nil || t.Kind() != reflect.Struct {
		return ""
	}
	for i := 0; i < t.NumField(); i++ {
		if t.Field(i).Name == name {
			return strconv.Itoa(i) + "|" + t.Field(i).Tag.Get("asn1")
		}
	}
	return ""
}

func FieldCount(v interface{}) int {
	t := reflect.TypeOf(v)
	for t != nil && t.Kind() == reflect.Ptr {
		t = t.Elem()
	}
	if t == nil || t.Kind() != reflect.Struct {
		return 0
	}
	return t.NumField()
}

// OutOfDate: the harness no longer matches the code under test (reported as INCONCLUSIVE, never as a pass)
func OutOfDate(what string) {}
