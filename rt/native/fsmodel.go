package verifrt

import "os"

var Chunked bool
var FSReads int

// PutFile (native): writes the bytes to a real temporary file.
func PutFile(name string, data []byte, n int) string {
	f, err := os.CreateTemp("", "verif_*_"+name)
	if err != nil {
		panic(err)
	}
	f.Write(data[:n])
	f.Close()
	return f.Name()
}

func InstallFS() {}
