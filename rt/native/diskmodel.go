package verifrt

// native twin: the real os/leveldb are used; only the knobs exist
var (
	Effects     int
	CrashAt     = -1
	FaultBudget int
	FaultLog    []string
	GetFaults   bool
	CloseFaults bool
)

func InstallDisk()                  {}
func Reboot()                       {}
func TempResidue(base string) int   { return 0 }

func InstallTempFiles() {}

var WorkDir = "/work"

func InstallDirListing() {}

func Children(base string) []string { return nil }
