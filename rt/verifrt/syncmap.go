package verifrt

import "sync"

// sync.Map model (the real one is built on atomics): an association list per map object.
type smEntry struct{ k, v interface{} }

var syncMaps map[*sync.Map][]smEntry

func InstallSyncMap() {
	syncMaps = map[*sync.Map][]smEntry{}
	Override("(*sync.Map).Load", func(m *sync.Map, key interface{}) (interface{}, bool) {
		for _, e := range syncMaps[m] {
			if e.k == key {
				return e.v, true
			}
		}
		return nil, false
	})
	Override("(*sync.Map).Store", func(m *sync.Map, key, value interface{}) {
		for i, e := range syncMaps[m] {
			if e.k == key {
				syncMaps[m][i].v = value
				return
			}
		}
		syncMaps[m] = append(syncMaps[m], smEntry{key, value})
	})
	Override("(*sync.Map).LoadOrStore", func(m *sync.Map, key, value interface{}) (interface{}, bool) {
		for _, e := range syncMaps[m] {
			if e.k == key {
				return e.v, true
			}
		}
		syncMaps[m] = append(syncMaps[m], smEntry{key, value})
		return value, false
	})
	Override("(*sync.Map).Delete", func(m *sync.Map, key interface{}) {
		var keep []smEntry
		for _, e := range syncMaps[m] {
			if e.k != key {
				keep = append(keep, e)
			}
		}
		syncMaps[m] = keep
	})
	Override("(*sync.Map).Range", func(m *sync.Map, f func(key, value interface{}) bool) {
		for _, e := range syncMaps[m] {
			if !f(e.k, e.v) {
				return
			}
		}
	})
}
