package verifrt

import (
	"io"
	"os"
)

// A small abstract file system, interpreted by the engine like any other Go code. Contract
// (DESIGN.md 1.5): regular files are byte strings; Read returns 1..len(p) bytes (all available
// ones unless Chunked) and never (n>0, err); every mutating call is one atomic effect.

type FNode struct {
	Data  []byte
	N     int // valid length of Data
	IsDir bool
}

type fstate struct {
	node   *FNode
	pos    int
	closed bool
}

var (
	FS      map[string]*FNode
	fopen   map[*os.File]*fstate
	Chunked bool // nondeterministic read sizes
	FSReads int
)

// PutFile registers a file and returns the path the code under test should open.
func PutFile(name string, data []byte, n int) string {
	if FS == nil {
		InstallFS()
	}
	FS[name] = &FNode{Data: data, N: n}
	return name
}

func InstallFS() {
	FS = map[string]*FNode{}
	fopen = map[*os.File]*fstate{}
	Override("os.Open", fsOpen)
	Override("(*os.File).Read", fsRead)
	Override("(*os.File).Seek", fsSeek)
	Override("(*os.File).Close", fsClose)
	Override("(*os.File).Name", fsName)
}

var fnames map[*os.File]string

func fsOpen(name string) (*os.File, error) {
	nd := FS[name]
	if nd == nil || nd.IsDir {
		return nil, NewError("open: no such file")
	}
	f := new(os.File)
	fopen[f] = &fstate{node: nd}
	if fnames == nil {
		fnames = map[*os.File]string{}
	}
	fnames[f] = name
	return f, nil
}

func fsName(f *os.File) string { return fnames[f] }

func fsRead(f *os.File, p []byte) (int, error) {
	st := fopen[f]
	if st == nil || st.closed {
		return 0, NewError("read: file closed")
	}
	FSReads++
	if len(p) == 0 {
		return 0, nil
	}
	rem := st.node.N - st.pos
	if rem <= 0 {
		return 0, io.EOF
	}
	k := len(p)
	if k > rem {
		k = rem
	}
	c := k
	if Chunked && k > 1 {
		c = NondetInt("chunk")
		Assume(c >= 1)
		Assume(c <= k)
	}
	copy(p[:c], st.node.Data[st.pos:st.pos+c])
	st.pos += c
	return c, nil
}

func fsSeek(f *os.File, offset int64, whence int) (int64, error) {
	st := fopen[f]
	if st == nil || st.closed {
		return 0, NewError("seek: file closed")
	}
	switch whence {
	case 0:
		st.pos = int(offset)
	case 1:
		st.pos += int(offset)
	case 2:
		st.pos = st.node.N + int(offset)
	}
	return int64(st.pos), nil
}

func fsClose(f *os.File) error {
	st := fopen[f]
	if st == nil || st.closed {
		return NewError("close: already closed")
	}
	st.closed = true
	return nil
}
