// Package verifrt is the harness-side API of the symbolic executor (/verif/engine).
// Every function here is intercepted by the engine; the bodies are never executed symbolically.
// A native twin (rt/native) with the same API replays solver models against the real build.
package verifrt

import "time"

func NondetInt(label string) int       { return 0 }
func NondetInt64(label string) int64   { return 0 }
func NondetU64(label string) uint64    { return 0 }
func NondetU8(label string) uint8      { return 0 }
func NondetBool(label string) bool     { return false }
func NondetString(label string) string { return "" }

// NondetBytes returns a buffer of n arbitrary bytes (n concrete).
func NondetBytes(label string, n int) []byte { return make([]byte, n) }

// Choose returns an arbitrary value in [0,n): every alternative is explored.
func Choose(n int) int { return 0 }

func Assume(b bool)               {}
func Assert(b bool, label string) {}
func Reach(label string)          {}

// AllocBudget bounds the size of every subsequent byte allocation (obligation "alloc-not-backed-by-input").
func AllocBudget(n int) {}

// Param reads a per-tier bound from /verif/props.json.
func Param(name string, def int) int { return def }

// Symbolic reports whether the harness is being executed by the symbolic engine.
func Symbolic() bool { return false }

// Override replaces the named function (ssa name, e.g. "encoding/asn1.Unmarshal") by f for the rest of the path.
func Override(name string, f interface{}) {}
func ClearOverride(name string)            {}

// AllowPanics makes Go panics propagate (defer/recover semantics) instead of being reported as violations.
func AllowPanics(on bool) {}

// StepBudget limits the number of SSA instructions from now on; if violation is set, exceeding it is a
// "nontermination" violation instead of an inconclusive unwinding failure.
func StepBudget(n int, violation bool) {}

// MapOrders makes every range over a Go map explore all rotations/reflections of the iteration order.
func MapOrders(on bool) {}

func SpawnedCount() int { return 0 }

// RunSpawned runs the bodies of all `go` statements recorded so far, in order, to completion.
func RunSpawned() int { return 0 }
func DropSpawned()    {}

// Crash stops the "process" here: no deferred function runs. CatchCrash runs f and reports whether it crashed.
func Crash()                   {}
func CatchCrash(f func()) bool { f(); return false }

// CatchPanic runs f with Go panic semantics and reports whether a panic escaped f.
func CatchPanic(f func()) bool { f(); return false }

func LocksHeld() int { return 0 }
func ResetLocks()    {}

func NewError(label string) error { return nil }

func TimeAt(ns int64) time.Time  { return time.Unix(0, ns) }
func TimeNs(t time.Time) int64   { return t.UnixNano() }
func SetNow(ns int64)            {}
func FreeNow()                   {}
func TraceBegin(op string)       {}
func TraceEnd()                  {}
func UFStr(fn string, s string) string { return s }
func BytesToToken(b []byte) string     { return string(b) }
func Note(s string)                    {}
func CheckAlloc() {}

// LiveBytes is the size of the heap reachable from all active frames and package-level variables
// at this instant (engine/heap.go): byte buffers by capacity, other cells 8 bytes each.
func LiveBytes() int { return 0 }

// BytesEqual compares two byte slices (one solver term, no branching).
func BytesEqual(a, b []byte) bool {
	if len(a) != len(b) {
		return false
	}
	for i := range a {
		if a[i] != b[i] {
			return false
		}
	}
	return true
}

// And / Or / Implies combine conditions without introducing control flow (no path fork in the engine).
func And(a, b bool) bool     { return a && b }
func Or(a, b bool) bool      { return a || b }
func Implies(a, b bool) bool { return !a || b }

// UFBytes64 is an injective uninterpreted function from strings to 8 bytes (a collision-free hash).
func UFBytes64(fn string, s string) []byte { return make([]byte, 8) }

// OtherThreadHolds marks a *sync.Mutex as currently held by another thread that will release it:
// Lock then waits (and succeeds), TryLock fails.
func OtherThreadHolds(mutex interface{}) {}

// KeepSymbolicBounds: slices of engine-tracked buffers keep symbolic bounds symbolic instead of being
// case-split (for models in which only sizes matter, not contents).
func KeepSymbolicBounds(on bool) {}

// LiveBytesExcluding: like LiveBytes, not counting what is reachable from the given roots (the modelled
// disk, harness bookkeeping).
func LiveBytesExcluding(roots ...interface{}) int { return 0 }

// PreemptAtLock: before the k-th lock acquisition attempt (Lock, RLock, TryLock; k = 0,1,...) made from now
// on, f runs to completion - a context switch at a lock boundary. Schedules in which f would block on
// a lock held by the suspended operation are dropped. PreemptRan reports whether f ran and disarms.
func PreemptAtLock(k int, f func()) {}
func PreemptRan() bool              { return false }

// Yield marks a point inside a long-running environment call (download, disk I/O) that counts as a
// context-switch point for PreemptAtLock, like a lock acquisition.
func Yield() {}

// SpawnAsThread: the next goroutine the code under test starts runs at once as a second thread (until it
// returns, waits for a lock or pauses at a Yield); the spawning operation continues meanwhile and the two
// alternate whenever one of them has to wait. JoinThread lets it finish and reports whether one ran.
func SpawnAsThread(on bool) {}
func JoinThread() bool      { return false }

// MaxAlloc: size of the largest single byte-buffer allocation so far; reset=true starts a new measurement.
func MaxAlloc(reset bool) int { return 0 }

// OverrideIfPresent: like Override, for a library function the current tree may not call at all.
func OverrideIfPresent(name string, f interface{}) {}

// FieldSpec: "<declaration index>|<asn1 struct tag>" of the named field of v's dynamic struct type (pointers
// dereferenced) as declared in the current source; "" when there is no such field. FieldCount: its number of fields.
func FieldSpec(v interface{}, name string) string { return "" }
func FieldCount(v interface{}) int              { return 0 }

// OutOfDate: the harness no longer matches the code under test (reported as INCONCLUSIVE, never as a pass)
func OutOfDate(what string) {}
