package verifrt

import (
	"os"
	"path"
	"path/filepath"
	"time"
	"strings"

	"github.com/syndtr/goleveldb/leveldb"
	"github.com/syndtr/goleveldb/leveldb/iterator"
	"github.com/syndtr/goleveldb/leveldb/opt"
	"github.com/syndtr/goleveldb/leveldb/util"
)

// Abstract disk for the LevelDB backend (DESIGN.md table 1.5):
//   directory  |-> ordered key/value list; Put is atomic and durable in order (no journal, no torn writes)
//   os.Rename  atomic; fails if the target exists and is not empty
//   every mutating call is one EFFECT: it may fail (fault budget) and it may be the crash point.
// The model is ordinary Go interpreted by the engine.

type KV struct {
	K, V []byte
}

type Dir struct {
	HasFiles bool // a database was opened here: the directory contains files (LOCK, LOG, MANIFEST, ...)
	Exists bool
	KV     []KV
	Locked bool // an open DB holds the LOCK file
	IsFile bool
}

type dbState struct {
	path   string
	closed bool
	// block checksums are verified on reads (goleveldb: opt.Options.Strict, zero value = DefaultStrict,
	// a non-zero value REPLACES the default; opt.ReadOptions.Strict can add it per read)
	blockChecksum bool
}

var (
	Disk        map[string]*Dir
	dbs         map[*leveldb.DB]*dbState
	Effects     int // number of mutating effects executed so far
	CrashAt     int // effect index after which the process dies (-1: never)
	FaultBudget int // how many injected failures are still allowed on this path
	FaultLog    []string
	GetFaults   bool // Db.Get / Db.Has may fail with an I/O error
	CloseFaults bool // Db.Close may fail (fault budget)
	ReadFault   error
	// DamagedBlocks: the table block holding the looked-up record was damaged on disk after it was
	// written (bit rot). goleveldb's contract: with block checksums verified the read fails with a
	// corruption error; without, the damaged block is used as it is (the key is not found).
	DamagedBlocks bool
	batches       map[*leveldb.Batch][]KV
)

func InstallDisk() {
	Disk = map[string]*Dir{}
	dbs = map[*leveldb.DB]*dbState{}
	Effects, CrashAt, FaultBudget = 0, -1, 0
	FaultLog = nil
	GetFaults = false
	DamagedBlocks = false
	CloseFaults = false
	ReadFault = NewError("leveldb: injected read I/O error")
	Override("github.com/syndtr/goleveldb/leveldb.OpenFile", dmOpenFile)
	Override("(*github.com/syndtr/goleveldb/leveldb.DB).Put", dmPut)
	Override("(*github.com/syndtr/goleveldb/leveldb.DB).Get", dmGet)
	Override("(*github.com/syndtr/goleveldb/leveldb.DB).Has", dmHas)
	Override("(*github.com/syndtr/goleveldb/leveldb.DB).Close", dmClose)
	Override("(*github.com/syndtr/goleveldb/leveldb.DB).NewIterator", dmNewIterator)
	// write batches: the records sit in process memory until the batch is written
	batches = map[*leveldb.Batch][]KV{}
	Override("(*github.com/syndtr/goleveldb/leveldb.Batch).Put", func(b *leveldb.Batch, key, value []byte) {
		batches[b] = append(batches[b], KV{K: key, V: value})
	})
	Override("(*github.com/syndtr/goleveldb/leveldb.Batch).Len", func(b *leveldb.Batch) int { return len(batches[b]) })
	Override("(*github.com/syndtr/goleveldb/leveldb.Batch).Reset", func(b *leveldb.Batch) { delete(batches, b) })
	Override("(*github.com/syndtr/goleveldb/leveldb.DB).Write", func(db *leveldb.DB, b *leveldb.Batch, wo *opt.WriteOptions) error {
		for _, kv := range batches[b] {
			if err := dmPut(db, kv.K, kv.V, wo); err != nil {
				return err
			}
		}
		return nil
	})
	Override("os.MkdirAll", dmMkdirAll)
	Override("os.Mkdir", dmMkdir)
	mkdirTempCtr = 0
	OverrideIfPresent("os.MkdirTemp", dmMkdirTemp)
	Override("os.Rename", dmRename)
	Override("os.RemoveAll", dmRemoveAll)
	Override("os.Remove", dmRemoveAll)
}

// effect: bookkeeping shared by all mutating calls; returns true if this call must fail.
func effect(what string) bool {
	// injected failures are persistent: the same operation on the same path keeps failing (retries do not help)
	for _, f := range FaultLog {
		if f == what {
			return true
		}
	}
	if FaultBudget > 0 && NondetBool("fault") {
		FaultBudget--
		FaultLog = append(FaultLog, what)
		return true
	}
	Effects++
	return false
}

// effectNoCount: like effect for calls that change nothing durable (they are no crash points)
func effectNoCount(what string) bool {
	for _, f := range FaultLog {
		if f == what {
			return true
		}
	}
	if FaultBudget > 0 && NondetBool("fault") {
		FaultBudget--
		FaultLog = append(FaultLog, what)
		return true
	}
	return false
}

// afterEffect: the crash point is "right after effect number CrashAt became durable".
func afterEffect() {
	if CrashAt >= 0 && Effects == CrashAt {
		Crash()
	}
}

func dir(path string) *Dir {
	d := Disk[path]
	if d == nil {
		d = &Dir{}
		Disk[path] = d
	}
	return d
}

func dmMkdirAll(path string, perm os.FileMode) error {
	d := dir(path)
	if d.Exists {
		return nil
	}
	if effect("mkdirall " + path) {
		return NewError("mkdir: injected failure")
	}
	d.Exists = true
	afterEffect()
	return nil
}

func dmMkdir(path string, perm os.FileMode) error {
	d := dir(path)
	if d.Exists {
		return NewError("mkdir: file exists")
	}
	if effect("mkdir " + path) {
		return NewError("mkdir: injected failure")
	}
	d.Exists = true
	afterEffect()
	return nil
}

var mkdirTempCtr int

// dmMkdirTemp: os.MkdirTemp's documented naming: the last "*" of the pattern is replaced by a random string, or the
// random string is appended when there is none; the directory is new (here: rnd0, rnd1, ... - never an existing name)
func dmMkdirTemp(base, pattern string) (string, error) {
	rnd := "rnd" + string(rune('0'+mkdirTempCtr%10))
	mkdirTempCtr++
	name := pattern + rnd
	for i := len(pattern) - 1; i >= 0; i-- {
		if pattern[i] == '*' {
			name = pattern[:i] + rnd + pattern[i+1:]
			break
		}
	}
	p := base + "/" + name
	if base == "" {
		p = "/tmp/" + name
	}
	if err := dmMkdir(p, 0700); err != nil {
		return "", err
	}
	return p, nil
}

func dmRename(oldp, newp string) error {
	Yield() // disk I/O takes its time: another operation may run while the caller holds whatever it holds
	o := dir(oldp)
	if !o.Exists {
		return NewError("rename: no such file or directory")
	}
	n := dir(newp)
	if n.Exists && len(n.KV) > 0 {
		return NewError("rename: directory not empty")
	}
	if effect("rename " + oldp + " -> " + newp) {
		return NewError("rename: injected failure")
	}
	Disk[newp] = &Dir{Exists: true, KV: o.KV, Locked: o.Locked, IsFile: o.IsFile, HasFiles: o.HasFiles}
	Disk[oldp] = &Dir{}
	afterEffect()
	return nil
}

func dmRemoveAll(path string) error {
	d := dir(path)
	if !d.Exists {
		return nil
	}
	if effect("remove " + path) {
		return NewError("remove: injected failure")
	}
	Disk[path] = &Dir{}
	afterEffect()
	return nil
}

func dmOpenFile(path string, o *opt.Options) (*leveldb.DB, error) {
	d := dir(path)
	if d.Locked {
		return nil, NewError("leveldb: resource temporarily unavailable (LOCK held)")
	}
	if effect("open " + path) {
		return nil, NewError("leveldb: injected open failure")
	}
	d.Exists = true
	d.Locked = true
	d.HasFiles = true
	db := new(leveldb.DB)
	strict := opt.DefaultStrict
	if o != nil && o.Strict != 0 {
		strict = o.Strict
	}
	dbs[db] = &dbState{path: path, blockChecksum: strict&opt.StrictBlockChecksum != 0}
	afterEffect()
	return db, nil
}

func dmClose(db *leveldb.DB) error {
	st := dbs[db]
	if st.closed {
		return leveldb.ErrClosed
	}
	if CloseFaults && effectNoCount("close "+st.path) {
		return NewError("leveldb: injected close failure (pending compaction error)")
	}
	st.closed = true
	if d := Disk[st.path]; d != nil {
		d.Locked = false
	}
	return nil
}

func dmPut(db *leveldb.DB, key, value []byte, wo *opt.WriteOptions) error {
	st := dbs[db]
	if st.closed {
		return leveldb.ErrClosed
	}
	if effect("put " + st.path) {
		return NewError("leveldb: injected write failure")
	}
	d := Disk[st.path]
	found := false
	for i := range d.KV {
		if BytesEqual(d.KV[i].K, key) {
			d.KV[i].V = value
			found = true
			break
		}
	}
	if !found {
		d.KV = append(d.KV, KV{K: key, V: value})
	}
	afterEffect()
	return nil
}

func dmGet(db *leveldb.DB, key []byte, ro *opt.ReadOptions) ([]byte, error) {
	st := dbs[db]
	if st.closed {
		return nil, leveldb.ErrClosed
	}
	if GetFaults && NondetBool("getfault") {
		return nil, ReadFault
	}
	if DamagedBlocks {
		if st.blockChecksum || (ro != nil && ro.Strict&opt.StrictBlockChecksum != 0) {
			return nil, NewError("leveldb/table: corruption on data-block: checksum mismatch")
		}
		return nil, leveldb.ErrNotFound
	}
	d := Disk[st.path]
	for i := range d.KV {
		if BytesEqual(d.KV[i].K, key) {
			return d.KV[i].V, nil
		}
	}
	return nil, leveldb.ErrNotFound
}

func dmHas(db *leveldb.DB, key []byte, ro *opt.ReadOptions) (bool, error) {
	_, err := dmGet(db, key, ro)
	if err == leveldb.ErrNotFound {
		return false, nil
	}
	if err != nil {
		return false, err
	}
	return true, nil
}

// Reboot: the process is gone - every handle is dead, every LOCK released; durable state stays.
func Reboot() {
	dbs = map[*leveldb.DB]*dbState{}
	for _, d := range Disk {
		d.Locked = false
	}
	CrashAt = -1
	ResetLocks()
	DropSpawned()
}

// TempResidue lists surviving entries whose base name matches ^crl_.*_tmp$ directly under base.
func TempResidue(base string) int {
	n := 0
	for p, d := range Disk {
		if d.Exists && strings.HasPrefix(p, base+"/crl_") && strings.HasSuffix(p, "_tmp") {
			n++
		}
	}
	return n
}

// ---- temporary files (os.CreateTemp) ----

var (
	tmpCtr   int
	tmpNames map[*os.File]string
)

func dmCreateTemp(dirp, pattern string) (*os.File, error) {
	if effect("createtemp " + dirp) {
		return nil, NewError("createtemp: injected failure")
	}
	tmpCtr++
	name := dirp + "/" + strings.Replace(pattern, "*", "t"+itoa(tmpCtr), 1)
	Disk[name] = &Dir{Exists: true, IsFile: true}
	f := new(os.File)
	if tmpNames == nil {
		tmpNames = map[*os.File]string{}
	}
	tmpNames[f] = name
	afterEffect()
	return f, nil
}

func itoa(n int) string {
	if n == 0 {
		return "0"
	}
	s := ""
	for n > 0 {
		s = string(rune('0'+n%10)) + s
		n /= 10
	}
	return s
}

func dmFileName(f *os.File) string { return tmpNames[f] }
func dmFileClose(f *os.File) error {
	if f == nil {
		return NewError("invalid argument")
	}
	return nil
}

// InstallTempFiles adds os.CreateTemp / (*os.File).Name / Close to the disk model.
func InstallTempFiles() {
	tmpCtr = 0
	tmpNames = map[*os.File]string{}
	Override("os.CreateTemp", dmCreateTemp)
	Override("(*os.File).Name", dmFileName)
	Override("(*os.File).Close", dmFileClose)
	// reading a downloaded document as a whole puts all of it into one buffer (DocSize bytes): visible to
	// harnesses that bound allocations (C17), harmless elsewhere
	Override("os.ReadFile", func(name string) ([]byte, error) {
		if d := Disk[name]; d == nil || !d.Exists {
			return nil, NewError("open: no such file or directory")
		}
		return make([]byte, DocSize), nil
	})
}

// DocSize: nominal size of a downloaded CRL document in the world model (the model keeps its content abstractly).
var DocSize = 1 << 20

// ---- directory listing (os.Stat, filepath.Walk, os.SameFile) ----

type finfo struct {
	name string
	path string
	dir  bool
}

func (f finfo) Name() string       { return f.name }
func (f finfo) Size() int64        { return 0 }
func (f finfo) Mode() os.FileMode  { return 0 }
func (f finfo) ModTime() time.Time { return time.Time{} }
func (f finfo) IsDir() bool        { return f.dir }
func (f finfo) Sys() interface{}   { return nil }

func baseName(p string) string {
	i := strings.LastIndex(p, "/")
	return p[i+1:]
}

func dmStat(path string) (os.FileInfo, error) {
	if path == WorkDir {
		return finfo{baseName(path), path, true}, nil
	}
	d := Disk[path]
	if d == nil || !d.Exists {
		return nil, NewError("stat: no such file or directory")
	}
	return finfo{baseName(path), path, !d.IsFile}, nil
}

func dmSameFile(a, b os.FileInfo) bool {
	x, ok1 := a.(finfo)
	y, ok2 := b.(finfo)
	return ok1 && ok2 && x.path == y.path
}

// WorkDir is the one directory whose children can be listed.
var WorkDir = "/work"

// dmWalk follows path/filepath.Walk (Go 1.23): the names of a directory are read BEFORE the callback
// is called for it; unless the callback returns SkipDir every name is lstat'ed afterwards, and an
// lstat failure (the callback removed the directory) is handed to the callback, whose error aborts
// the whole walk.
func dmWalk(root string, fn filepath.WalkFunc) error {
	err := fn(root, finfo{baseName(root), root, true}, nil)
	if err != nil {
		if err == filepath.SkipDir {
			return nil
		}
		return err
	}
	var kids []string
	for p, d := range Disk {
		if d.Exists && strings.HasPrefix(p, root+"/") && !strings.Contains(p[len(root)+1:], "/") {
			kids = append(kids, p)
		}
	}
	for _, p := range kids {
		d := Disk[p]
		if d == nil || !d.Exists {
			continue
		}
		isDir := !d.IsFile
		hadFiles := d.HasFiles
		err := fn(p, finfo{baseName(p), p, isDir}, nil)
		if err == filepath.SkipDir {
			continue
		}
		if err != nil {
			return err
		}
		if isDir {
			// the walk descends: children read before the callback ran
			if hadFiles {
				if nd := Disk[p]; nd == nil || !nd.Exists {
					if e := fn(p+"/LOCK", nil, NewError("lstat: no such file or directory")); e != nil && e != filepath.SkipDir {
						return e
					}
				} else if e := fn(p+"/LOCK", finfo{"LOCK", p + "/LOCK", false}, nil); e != nil && e != filepath.SkipDir {
					return e
				}
			}
			for q, qd := range Disk {
				if qd.Exists && strings.HasPrefix(q, p+"/") && !strings.Contains(q[len(p)+1:], "/") {
					if e := fn(q, finfo{baseName(q), q, !qd.IsFile}, nil); e != nil && e != filepath.SkipDir {
						return e
					}
				}
			}
		}
	}
	return nil
}

func InstallDirListing() {
	Override("os.Stat", dmStat)
	Override("os.SameFile", dmSameFile)
	Override("path/filepath.Walk", dmWalk)
	OverrideIfPresent("path/filepath.Glob", dmGlob)
}

// dmGlob: path/filepath.Glob over the modelled disk. As in the real function the directory part of the
// pattern is a pattern as well: a directory whose name contains a metacharacter does not match itself.
func dmGlob(pattern string) ([]string, error) {
	i := strings.LastIndex(pattern, "/")
	if i < 0 {
		return nil, nil
	}
	dirPat, filePat := pattern[:i], pattern[i+1:]
	meta := strings.ContainsAny(dirPat, "*?[\\")
	var out []string
	for p, d := range Disk {
		if d == nil || !d.Exists {
			continue
		}
		j := strings.LastIndex(p, "/")
		if j < 0 {
			continue
		}
		pd, base := p[:j], p[j+1:]
		okDir := pd == dirPat
		if meta {
			okDir, _ = path.Match(dirPat, pd)
		}
		if !okDir {
			continue
		}
		if ok, _ := path.Match(filePat, base); ok {
			out = append(out, p)
		}
	}
	return out, nil
}

// ---- iterators ----

type dmIter struct {
	kv  []KV
	pos int
	err error
}

func dmNewIterator(db *leveldb.DB, slice *util.Range, ro *opt.ReadOptions) iterator.Iterator {
	st := dbs[db]
	it := &dmIter{pos: -1}
	if st.closed {
		it.err = leveldb.ErrClosed
		return it
	}
	it.kv = append(it.kv, Disk[st.path].KV...)
	return it
}

func (i *dmIter) First() bool  { i.pos = 0; return i.Valid() }
func (i *dmIter) Last() bool   { i.pos = len(i.kv) - 1; return i.Valid() }
func (i *dmIter) Next() bool   { i.pos++; return i.Valid() }
func (i *dmIter) Prev() bool   { i.pos--; return i.Valid() }
func (i *dmIter) Valid() bool  { return i.err == nil && i.pos >= 0 && i.pos < len(i.kv) }
func (i *dmIter) Error() error { return i.err }
func (i *dmIter) Key() []byte {
	if !i.Valid() {
		return nil
	}
	return i.kv[i.pos].K
}
func (i *dmIter) Value() []byte {
	if !i.Valid() {
		return nil
	}
	return i.kv[i.pos].V
}
func (i *dmIter) Seek(key []byte) bool {
	for k := range i.kv {
		if BytesEqual(i.kv[k].K, key) {
			i.pos = k
			return true
		}
	}
	i.pos = len(i.kv)
	return false
}
func (i *dmIter) Release()                      {}
func (i *dmIter) SetReleaser(r util.Releaser) {}

// Children lists the existing direct children of base.
func Children(base string) []string {
	var out []string
	for p, d := range Disk {
		if d.Exists && strings.HasPrefix(p, base+"/") && !strings.Contains(p[len(base)+1:], "/") {
			out = append(out, p)
		}
	}
	return out
}
