#!/bin/bash
# Validates environment models against the real libraries (run by setup.sh).
set -e
cd "$(dirname "$0")"
export GOFLAGS=-mod=mod GOPROXY=off GOSUMDB=off GOTOOLCHAIN=local
T=$(mktemp -d)
python3 - "$T" <<'PY'
import json,sys,glob,os
t=sys.argv[1]
rep={}
for f in glob.glob('/verif/rt/native/*.go'):
    rep['/repo/zz_verif/verifrt/zz_verif_'+os.path.basename(f)]=f
for f in glob.glob('/verif/harness/ocsp/*.go'):
    rep['/repo/ocsp/zz_verif_'+os.path.basename(f)]=f
rep['/repo/ocsp/zz_verif_contract_test.go']='/verif/validate/ocsp_contract_test.go'
json.dump({"Replace":rep},open(t+'/overlay.json','w'))
PY
set +e
(cd /repo && go test -vet=off -count=1 -overlay "$T/overlay.json" -run TestVerifOcspContractModelAgainstLibrary -v ./ocsp/ > "$T/out.txt" 2>&1)
rc=$?
tail -6 "$T/out.txt"
rm -rf "$T"
exit $rc
